#!/bin/bash
# /verif/run.sh <Cxx> <quick|thorough> [+N]   run one property's check (+N: N deviations deeper, engine T)
# /verif/run.sh replay <file>            replay a violation artefact
# /verif/run.sh build                    (re)build the harness against /repo's working tree
# /verif/run.sh setup                    build + machinery self-tests + pass-through conformance
#
# Every invocation first re-derives the instrumented copy of /repo's current
# working tree (only files whose content changed are rewritten, so cargo
# rebuilds exactly when /repo or the harness changed) and builds the harness.
set -u
VERIF="$(cd "$(dirname "$0")" && pwd)"
REPO="${VERIF_REPO:-/repo}"
export VERIF_DIR="$VERIF"
export CARGO_NET_OFFLINE=true
B="$VERIF/.build"
mkdir -p "$B" "$VERIF/evidence" "$VERIF/replays"

build() {
  exec 9>"$B/.lock"
  flock 9
  local out
  out=$(python3 "$VERIF/tools/instrument.py" "$REPO" "$B/inst" "$VERIF/rt" 2>&1) || {
    echo "MACHINERY-ERROR: instrumenting $REPO failed: $out"; exit 2; }
  if ! (cd "$VERIF/harness" && CARGO_TARGET_DIR="$B/target" cargo build --release --offline >"$B/build.log" 2>&1); then
    echo "MACHINERY-ERROR: building the harness against the instrumented copy of $REPO failed (see $B/build.log)"
    grep -E "^error" -A6 "$B/build.log" | head -40
    exit 2
  fi
  flock -u 9
  exec 9>&-
}

cmd="${1:-}"
case "$cmd" in
  build)
    build; echo "built $B/target/release/vcheck";;
  setup)
    build
    echo "== rt self-tests (planted bugs for the engine)"
    (cd "$VERIF/rt" && CARGO_TARGET_DIR="$B/target-rt" cargo test --release --offline 2>&1 | grep -E "^test |test result" ) || { echo "MACHINERY-ERROR: rt self-tests failed"; exit 2; }
    (cd "$VERIF/rt" && CARGO_TARGET_DIR="$B/target-rt" cargo test --release --offline >/dev/null 2>&1) || { echo "MACHINERY-ERROR: rt self-tests failed"; exit 2; }
    echo "== pass-through conformance: the crate's own tests on the instrumented copy"
    (cd "$B/inst" && CARGO_TARGET_DIR="$B/target-inst" cargo test --offline --lib 2>&1 | grep "test result") || { echo "MACHINERY-ERROR: conformance run failed"; exit 2; }
    (cd "$B/inst" && CARGO_TARGET_DIR="$B/target-inst" cargo test --offline --lib >/dev/null 2>&1) || { echo "MACHINERY-ERROR: the crate's tests fail on the instrumented copy"; exit 2; }
    "$B/target/release/vcheck" selftest || { echo "MACHINERY-ERROR: harness self-test failed"; exit 2; }
    echo "setup ok";;
  replay)
    build
    [ "$(cat "$B/inst/.thread_local" 2>/dev/null)" = 1 ] && export RXVERIF_NO_POOL=1
    exec "$B/target/release/vcheck" replay "${2:?file}";;
  C[0-9][0-9])
    build
    # thread-local state in the tree under test: no pooling of OS threads (see rt/src/exec.rs pool_run)
    [ "$(cat "$B/inst/.thread_local" 2>/dev/null)" = 1 ] && export RXVERIF_NO_POOL=1
    # optional third argument +N: N more deviations than the catalogue's bound in every T scenario
    case "${3:-}" in +[0-9]*) export VERIF_BOUND_ADD="${3#+}";; esac
    exec "$B/target/release/vcheck" check "$cmd" --tier "${2:-${VERIF_TIER:-quick}}";;
  *)
    echo "usage: run.sh <Cxx> <quick|thorough> | replay <file> | build | setup"; exit 2;;
esac
