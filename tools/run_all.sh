#!/bin/bash
# run every check of MANIFEST.json at a tier, validate manifest + evidence against the schemas
TIER="${1:-quick}"
cd /verif
python3 -c "
import json
m=json.load(open('MANIFEST.json'))
print(' '.join(c['property_id'] for c in m['checks']))" > /tmp/props.txt
for p in $(cat /tmp/props.txt); do
  s=$(date +%s.%N)
  ./run.sh $p $TIER > /tmp/out_$p.txt 2>&1; code=$?
  e=$(date +%s.%N)
  printf "%s exit=%d %5.1fs  %s\n" $p $code $(echo "$e - $s" | bc) "$(grep -E '^C[0-9]+ (quick|thorough)' /tmp/out_$p.txt | cut -c1-150)"
done
python3-vt - <<'PY'
import json,jsonschema,glob
jsonschema.validate(json.load(open('/verif/MANIFEST.json')), json.load(open('/root/.vp/MANIFEST.schema.json')))
sch=json.load(open('/root/.vp/EVIDENCE.schema.json'))
n=0
for f in sorted(glob.glob('/verif/evidence/C*.json')):
    jsonschema.validate(json.load(open(f)), sch); n+=1
print('manifest + %d evidence files valid'%n)
PY
