#!/usr/bin/env python3
"""Writes /verif/MANIFEST.json from the table below (keeps it valid at all times)."""
import json, os, sys
V = os.path.dirname(os.path.dirname(os.path.abspath(__file__)))
T_NOTE = ("Trusted base: the facade (rxverif-rt) models std's Mutex/RwLock(writer-preferring)/Condvar/spawn/join/sleep faithfully "
          "(every grant is cross-checked against the real std lock with try_*; the crate's 179 tests pass on the instrumented copy in pass-through mode); "
          "scheduling points at synchronisation operations suffice because the crate has no unsafe/atomics; sequential consistency; "
          "bounded to the listed closed scenarios and preemption/deviation bound.")
S_NOTE = ("Trusted base: the reference interpreter / monitors in /verif/harness (spec: DESIGN.md Appendix A and §6); "
          "bounded to the enumerated pipelines, scripts and histories; single-threaded.")
S_TECH = "exhaustive enumeration of operator pipelines x source scripts x driver histories, each run on fresh real objects and compared step by step with a reference interpreter / safety monitor (bounded model checking of the implementation by re-execution)"
T_TECH = "stateless preemption-bounded DFS over all schedules of the real code under a controlled scheduler (CHESS-style iterative context bounding), virtual time"
CHECKS = {
 "C01": ("S", S_TECH, "Every catalogue operator (68 instances + window/group_by direct) at depth 0/1/2 (thorough: 3) and every combining operator over 2-3 sources is run on every ill-formed source script over {n1,n2,E,C} up to length 4 (thorough 5) - not cut at the first terminal - cold and hot (all interleavings); oracle: contract automaton next*(error|complete)? on every recorder (outer and inner) and Subscription::is_subscribed()==false after a terminal.", "§5, §7 C01", S_NOTE),
 "C02": ("S", S_TECH, "Every single-source operator instance at depth 1 and every ordered pair at depth 2 (thorough: depth 3 over a reduced catalogue, scripts up to 8 items over {1,2}) x all item strings over {1,2,3} up to length 4/5 x {complete,error,silent}, cold and hot (stepwise, so late/early emission is a mismatch); oracle: reference interpreter (Appendix A).", "§5, §7 C02", S_NOTE),
 "C03": ("S", S_TECH, "merge/concat/zip/combine_latest/amb/take_until/skip_until/sample/sequence_equal/flat_map over 2-3 sources: all per-source scripts (<=2-3 items + complete/error/silent) x ALL sequential interleavings (hot, compared stepwise) + cold and mixed sources + one single-source operator below/above; oracle: reference interpreter.", "§5, §7 C03", S_NOTE),
 "C04": ("S", S_TECH, "Error injected at every position of every script through every operator (depth<=2) and every combining operator; retry(0..4)/retry_when/on_error_resume_next/materialize/dematerialize over sources whose k-th subscription behaves differently (5^4 attempt sequences); oracle: reference interpreter + the delivered error must be the very same payload object.", "§5, §7 C04", S_NOTE),
 "C05": ("S+T", S_TECH + "; cross-thread clause: " + T_TECH, "Every pipeline (depth<=2, combining operators) over hot sources with unsubscribe at every position of every history (also twice, also after the terminal); oracle: nothing delivered in or after the step in which unsubscribe returned, second unsubscribe is a no-op, is_subscribed truth table. Cross-thread clause (engine T): a producer thread (direct, through map, merge, flat_map, a Subject, observe_on, interval) against a main thread that unsubscribes, every schedule with <= 1-2 (thorough 2-4) preemptions; oracle: no callback whose causing library call started after unsubscribe() returned.", "§5, §7 C05", S_NOTE),
 "C06": ("S+T", S_TECH + "; cross-thread clause: " + T_TECH, "Every pipeline over probe sources (observer.is_subscribed() read after every step; polite/endless producers counted) for every terminating cause (unsubscribe at every position, terminal, take/first/element_at/take_while/contains/all/take_until/amb/retry/erroring sibling); oracle: a source the reference no longer needs reads is_subscribed()==false and makes no further emission.", "§5, §7 C06", S_NOTE),
 "C07": ("T+S", T_TECH + "; plus single-threaded re-execution under a lock monitor", "Engine T: ~50 concurrent scenarios, one or more per operator that owns shared state (4 subject types with producer||subscriber||unsubscriber, every combining and stateful operator fed by two producer threads with a third unsubscribing, publish/ref_count/replay connect races, observe_on/subscribe_on/interval/timeout/debounce against unsubscribe), every schedule with <= 1-2 (thorough 2-3) preemptions, writer-preferring RwLock model; oracle: the runtime's deadlock / self-deadlock / livelock-horizon / stuck-worker classification. Engine S: a re-entrancy catalogue (callbacks that unsubscribe themselves / call next / complete / subscribe on the subject they are called from, live and during the hand-over of the history, through 10 operators; synchronous sources below ref_count/replay with an early-ending downstream) and a slice of the C01/C05/C06 pipeline spaces, all under the facade's lock monitor.", "§4, §5, §7 C07", T_NOTE),
 "C08": ("T", T_TECH, "Every schedule with <= c preemptions (c=2..3 quick, 3..5 thorough) of 10-13 closed post/abort histories over 1..3 poster threads and the worker runs the real AsyncFunctionQueue/NewThreadScheduler to completion; oracle: tasks disjoint, at most once, FIFO w.r.t. real-time order of post calls, one worker thread, no lost wake-up, nothing dequeued after abort returned, worker exits after abort.", "§4, §7 C08", T_NOTE),
 "C09": ("T", T_TECH, "observe_on / subscribe_on (alone, below/above map, before take(1), stacked twice, combined) x source scripts (<=2 items + complete/error/none) emitted synchronously in subscribe or from a source thread x optional unsubscribe racing the worker; every schedule with <= 2 (thorough 3) preemptions; oracle: received = emitted (prefix if unsubscribed), terminal last, one worker thread != emitting thread, callback intervals disjoint, subscribe_on runs the source on the worker, nothing emitted after unsubscribe returned is delivered, worker exits.", "§4, §7 C09", T_NOTE),
 "C10": ("S", S_TECH, "All call sequences of length <= 6 (thorough 7) over {subscribe_i, unsubscribe_i (i<3, also repeated), next(v) (v<2), error, complete} (observers named in subscription order) on Subject/BehaviorSubject/ReplaySubject/AsyncSubject, observers attached directly and through map; oracle: four reference state machines compared stepwise per observer, and the subject's observer count after every call.", "§5, §7 C10", S_NOTE),
 "C11": ("T", T_TECH, "merge/flat_map/zip/concat/amb over 2 (thorough 3) threaded cold sources (each subscription starts a producer thread: 2 items + complete), with and without take(1|2) downstream, and a Subject fed by two producers under take(n); every schedule with <= 2 (thorough 3) preemptions; oracle: multiset of items conserved, per-input order, zip pairs i-th items, amb lets one input through, take(n) <= n items, exactly one complete after the last item, never two terminals.", "§4, §7 C11", T_NOTE),
 "C12": ("T", T_TECH, "Subject/BehaviorSubject/ReplaySubject with 1-2 producer threads, a subscribing thread and an unsubscribing thread, two observer iteration orders (hash seeds); every schedule with <= 2 (thorough 3-4) preemptions; oracle: resident observers get every item once in per-producer order, leaving/late observers a gap-free prefix/suffix, late Replay/Behavior subscribers the full history once.", "§4, §7 C12", T_NOTE),
 "C13": ("S", S_TECH, "All call sequences of length <= 6 (thorough 7) over {subscribe_i, unsubscribe_i, connect, disconnect, source emits v, source completes, source errors} on publish/ref_count/replay, with a hot manual source and with 6 cold sources that emit synchronously inside connect/first-subscribe; oracle: reference machines (per-subscriber events stepwise, number of live source subscriptions after every call, total source subscriptions).", "§5, §7 C13", S_NOTE),
 "C14": ("S", S_TECH, "Every pipeline (depth<=2, under retry, combining operators) subscribed 2-3 times to the SAME Observable value: sequentially over cold sources whose k-th subscription differs, and mid-stream on a hot source (also after the first left); oracle: each subscriber equals the reference for an independent pipeline instance; tap side effects per subscription.", "§5, §7 C14", S_NOTE),
 "C15": ("T", T_TECH, "{interval, timer, observe_on, subscribe_on, debounce, timeout, flat_map->observe_on, observe_on twice, sample(interval), publish(interval), delay} x ending {source complete/error, unsubscribe, take(1), first, take_until(timer), amb, retry}, each also twice in a row, in virtual time, every schedule with <= 1-2 (thorough 2-3) preemptions; oracle: at quiescence every controlled thread has exited (none parked in Condvar::wait), and each exits within 2*d_max of virtual time after its subscription ended.", "§4, §7 C15", T_NOTE),
 "C16": ("T", T_TECH, "interval(d) with unsubscribe at several instants, timer(d), delay(d) under a source thread with gap scripts, timeout(d) with gaps below/above d, completion inside/outside d, a slow consumer, sample/debounce over a source thread; d in {10,20} ms of virtual time, every schedule with <= 2 (thorough 3) preemptions; oracle: exact (virtual time, event) sequences for interval/timer/delay/timeout incl. io::ErrorKind::TimedOut, subsequence/no-duplicate for sample/debounce.", "§4, §7 C16", T_NOTE),
 "C17": ("S", S_TECH, "Every pipeline (depth<=2, combining operators) x every way of ending (terminal, unsubscribe at every position); an Arc token is captured by the 3 subscriber callbacks, by every closure handed to an operator and carried by every item; oracle: after the end and after dropping all handles every token has exactly one owner.", "§5, §7 C17", S_NOTE),
 "C18": ("T", T_TECH, "A source thread emitting <=2 items then complete/error against a minimal block_on (facade Mutex/Condvar + std::task::Wake) polling to_vec(); every schedule with <= 3 (thorough 4-6) preemptions; oracle: result equals the script, Ready never before the source's terminal, main never parked forever (lost wake-up).", "§4, §7 C18", T_NOTE),
 "C19": ("T", T_TECH, "2-3 threads of which one signals a terminal: inputs of merge/flat_map/zip/amb/combine_latest, source vs trigger of take_until/skip_until/sample, next||complete||error on the four subject types, each observed directly and through map; every schedule with <= 2 (thorough 3) preemptions; oracle: at most one terminal, no callback caused by a library call that started after the terminal callback returned.", "§4, §7 C19", T_NOTE),
}
PENDING = {}
props = [json.loads(l) for l in open(os.path.join(V, "properties.jsonl"))]
checks = []
na = []
for p in props:
  i = p["id"]
  if i in CHECKS:
    eng, tech, text, ref, note = CHECKS[i]
    checks.append({
      "property_id": i,
      "quick_cmd": "./run.sh %s quick" % i,
      "thorough_cmd": "./run.sh %s thorough" % i,
      "evidence_file": "/verif/evidence/%s.json" % i,
      "replay_cmd_template": "./run.sh replay {path}",
      "engine": eng,
      "level_claimed": {"category": "model_checking", "text": text, "design_ref": ref},
      "level_note": note,
      "technique": tech,
    })
  else:
    na.append({"property_id": i, "reason": PENDING.get(i, "check not built yet (work in progress; model checking applies, see DESIGN.md §7)")})
m = {
  "version": 1,
  "setup_cmd": "./run.sh setup",
  "hooks": {
    "guard": "none in /repo: instrumentation is a source transformation applied to a scratch copy (tools/instrument.py), as properties.jsonl prescribes ('no edit of /repo')",
    "enable": "./run.sh build  (tools/instrument.py copies /repo's working tree to /verif/.build/inst, rewrites the path root std:: to crate::vstd:: (= std re-exported with sync/thread/time/collections shadowed by the rxverif-rt facade), appends read-only observer-count accessors, and builds the harness against it)",
    "baseline_off_cmd": "cd /repo && cargo test --workspace --no-fail-fast --offline",
    "source_commits": [],
    "add_only": True,
  },
  "engines": [
    {"name": "T", "path": "/verif/rt + /verif/harness/src/t_*.rs", "serves_properties": [c["property_id"] for c in checks if "T" in c["engine"]],
     "kind_free_text": "controlled scheduler over the real crate (facade for std::sync/thread/time), stateless deviation-bounded DFS of all schedules, virtual time"},
    {"name": "S", "path": "/verif/harness/src/s_*.rs", "serves_properties": [c["property_id"] for c in checks if "S" in c["engine"]],
     "kind_free_text": "exhaustive enumeration of pipelines x scripts x histories on the real crate against a reference interpreter / safety monitors, lock monitor for self-deadlock"},
  ],
  "checks": checks,
  "not_applicable": na,
  "notes": "All checks share one build (run.sh build) that is redone whenever /repo's working tree or the harness changes. Exit 0 = held / only known findings; 1 = VIOLATION; 2 = MACHINERY-ERROR (never a verdict).",
}
json.dump(m, open(os.path.join(V, "MANIFEST.json"), "w"), indent=1)
print("wrote MANIFEST.json with", len(checks), "checks,", len(na), "not_applicable")
