#!/usr/bin/env python3
"""Writes /verif/MANIFEST.json from the table below (keeps it valid at all times)."""
import json, os, sys
V = os.path.dirname(os.path.dirname(os.path.abspath(__file__)))
T_NOTE = ("Trusted base: the facade (rxverif-rt) models std's Mutex/RwLock(writer-preferring)/Condvar/spawn/join/sleep faithfully "
          "(every grant is cross-checked against the real std lock with try_*; the crate's 179 tests pass on the instrumented copy in pass-through mode); "
          "scheduling points at synchronisation operations suffice because the crate has no unsafe/atomics; sequential consistency; "
          "bounded to the listed closed scenarios and preemption/deviation bound.")
S_NOTE = ("Trusted base: the reference interpreter / monitors in /verif/harness (spec: DESIGN.md Appendix A and §6); "
          "bounded to the enumerated pipelines, scripts and histories; single-threaded.")
CHECKS = {
 # id: (engine, technique, level text, design_ref, note)
 "C08": ("T", "stateless preemption-bounded DFS over all schedules of the real scheduler code under a controlled runtime (CHESS-style)",
         "Every schedule with <= c preemptions (c=2..3 quick, 3..5 thorough) of 10-13 closed post/abort histories over 1..3 poster threads and the worker runs the real AsyncFunctionQueue/NewThreadScheduler to completion; oracle: tasks disjoint, at most once, FIFO w.r.t. real-time order of post calls, one worker thread, no lost wake-up, nothing dequeued after abort returned, worker exits after abort.",
         "§4, §7 C08", T_NOTE),
}
PENDING = {}
props = [json.loads(l) for l in open(os.path.join(V, "properties.jsonl"))]
checks = []
na = []
for p in props:
  i = p["id"]
  if i in CHECKS:
    eng, tech, text, ref, note = CHECKS[i]
    checks.append({
      "property_id": i,
      "quick_cmd": "./run.sh %s quick" % i,
      "thorough_cmd": "./run.sh %s thorough" % i,
      "evidence_file": "/verif/evidence/%s.json" % i,
      "replay_cmd_template": "./run.sh replay {path}",
      "engine": eng,
      "level_claimed": {"category": "model_checking", "text": text, "design_ref": ref},
      "level_note": note,
      "technique": tech,
    })
  else:
    na.append({"property_id": i, "reason": PENDING.get(i, "check not built yet (work in progress; model checking applies, see DESIGN.md §7)")})
m = {
  "version": 1,
  "setup_cmd": "./run.sh setup",
  "hooks": {
    "guard": "none in /repo: instrumentation is a source transformation applied to a scratch copy (tools/instrument.py), as properties.jsonl prescribes ('no edit of /repo')",
    "enable": "./run.sh build  (tools/instrument.py copies /repo's working tree to /verif/.build/inst, rewrites the path root std:: to crate::vstd:: (= std re-exported with sync/thread/time/collections shadowed by the rxverif-rt facade), appends read-only observer-count accessors, and builds the harness against it)",
    "baseline_off_cmd": "cd /repo && cargo test --workspace --no-fail-fast --offline",
    "source_commits": [],
    "add_only": True,
  },
  "engines": [
    {"name": "T", "path": "/verif/rt + /verif/harness/src/t_*.rs", "serves_properties": [c["property_id"] for c in checks if "T" in c["engine"]],
     "kind_free_text": "controlled scheduler over the real crate (facade for std::sync/thread/time), stateless deviation-bounded DFS of all schedules, virtual time"},
    {"name": "S", "path": "/verif/harness/src/s_*.rs", "serves_properties": [c["property_id"] for c in checks if "S" in c["engine"]],
     "kind_free_text": "exhaustive enumeration of pipelines x scripts x histories on the real crate against a reference interpreter / safety monitors, lock monitor for self-deadlock"},
  ],
  "checks": checks,
  "not_applicable": na,
  "notes": "All checks share one build (run.sh build) that is redone whenever /repo's working tree or the harness changes. Exit 0 = held / only known findings; 1 = VIOLATION; 2 = MACHINERY-ERROR (never a verdict).",
}
json.dump(m, open(os.path.join(V, "MANIFEST.json"), "w"), indent=1)
print("wrote MANIFEST.json with", len(checks), "checks,", len(na), "not_applicable")
