#!/bin/bash
# confirm_seed.sh <worktree> <name>   e.g. confirm_seed.sh /tmp/wt/C18 C18-a
# Confirms: existing lib tests pass with the change; demo fails with it, passes without.
# On success copies the artefacts to /verif/seeded/<name>/ .
set -u
WT="$1"; NAME="$2"
cd "$WT" || exit 2
demo=$(ls tests/demo_*.rs 2>/dev/null | head -1)
[ -z "$demo" ] && { echo "no demo test in $WT/tests"; exit 2; }
dn=$(basename "$demo" .rs)
git diff -- src > /tmp/confirm_$NAME.diff
[ -s /tmp/confirm_$NAME.diff ] || { echo "no source change"; exit 2; }
echo "== existing tests with the change"
lib=$(cargo test --offline --lib 2>&1 | grep "test result" | head -1); echo "$lib"
echo "== demo with the change (must fail)"
with=$(timeout 600 cargo test --offline --test "$dn" 2>&1 | grep "test result" | head -1); echo "$with"
git stash -q -- src
echo "== demo without the change (must pass)"
without=$(timeout 600 cargo test --offline --test "$dn" 2>&1 | grep "test result" | head -1); echo "$without"
git stash pop -q
ok=1
echo "$lib" | grep -q "179 passed; 0 failed" || ok=0
echo "$with" | grep -q "FAILED" || ok=0
echo "$without" | grep -q "test result: ok" || ok=0
if [ $ok = 1 ]; then
  D=/verif/seeded/$NAME; mkdir -p "$D"
  cp /tmp/confirm_$NAME.diff "$D/patch.diff"; cp "$demo" "$D/"
  [ -f seeded_out/meta.json ] && cp seeded_out/meta.json "$D/meta.agent.json"
  printf '{"lib_tests_with_change": "%s", "demo_with_change": "%s", "demo_without_change": "%s"}\n' "$lib" "$with" "$without" > "$D/confirmed.json"
  echo "CONFIRMED -> $D"
else
  echo "NOT CONFIRMED"; exit 1
fi
