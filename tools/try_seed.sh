#!/bin/bash
# try_seed.sh <seed-name | path/to/patch.diff> <Cxx> [<Cxx>...]  : apply the patch to /repo, run the quick checks, revert.
set -u
NAME="$1"; shift
if [ -f "$NAME" ]; then P="$NAME"; else P=/verif/seeded/$NAME/patch.diff; fi
git -C /repo status --porcelain | grep -q . && { echo "/repo not clean"; exit 2; }
git -C /repo apply --check "$P" 2>/dev/null || { echo "--- $NAME: patch does not apply to the current tree"; exit 2; }
git -C /repo apply "$P"
for c in "$@"; do
  out=$(/verif/run.sh "$c" "${TIER:-quick}" 2>&1); code=$?
  echo "--- $NAME vs $c: exit=$code"
  echo "$out" | grep -E "^(VIOLATION|MACHINERY|  violation)" | head -${LINES_MAX:-12}
done
git -C /repo checkout -- .
git -C /repo status --porcelain | grep -q . && echo "WARNING: /repo not clean after revert"
/verif/run.sh build >/dev/null
