#!/bin/bash
# try_seed.sh <seed-name> <Cxx> [<Cxx>...]  : apply /verif/seeded/<name>/patch.diff to /repo, run the quick checks, revert.
set -u
NAME="$1"; shift
P=/verif/seeded/$NAME/patch.diff
git -C /repo status --porcelain | grep -q . && { echo "/repo not clean"; exit 2; }
git -C /repo apply "$P" || { echo "patch does not apply"; exit 2; }
for c in "$@"; do
  out=$(/verif/run.sh "$c" "${TIER:-quick}" 2>&1); code=$?
  echo "--- $NAME vs $c: exit=$code"
  echo "$out" | grep -E "^(VIOLATION|KNOWN-FINDING|MACHINERY|  violation)" | head -${LINES_MAX:-12}
done
git -C /repo checkout -- .
git -C /repo status --porcelain | grep -q . && echo "WARNING: /repo not clean after revert"
/verif/run.sh build >/dev/null
