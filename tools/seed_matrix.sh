#!/bin/bash
# seed_matrix.sh [filter-regex] : every (seed, check) pair of seeded/EXPECTED.tsv is applied to /repo,
# checked with the quick tier and reverted; every benign refactoring is run against the checks named
# in seeded/BENIGN.tsv and must stay silent. Prints one line per pair; exit 1 on any mismatch.
set -u
cd /verif
F="${1:-.}"
bad=0
last=""
while IFS=$'\t' read -r seed chk want; do
  case "$seed" in \#*|"") continue;; esac
  echo "$seed $chk" | grep -Eq "$F" || continue
  P=/verif/seeded/$seed/patch.diff
  git -C /repo status --porcelain | grep -q . && { echo "/repo not clean"; exit 2; }
  if ! git -C /repo apply --check "$P" 2>/dev/null; then echo "$seed $chk: patch does not apply"; bad=1; continue; fi
  git -C /repo apply "$P"
  out=$(/verif/run.sh "$chk" quick 2>&1); code=$?
  git -C /repo checkout -- .
  if [ "$code" = "$want" ]; then echo "ok    $seed vs $chk: exit=$code"; else echo "WRONG $seed vs $chk: exit=$code, expected $want"; bad=1; fi
done < seeded/EXPECTED.tsv
if [ -f seeded/BENIGN.tsv ]; then
  while IFS=$'\t' read -r patch checks; do
    case "$patch" in \#*|"") continue;; esac
    echo "$patch" | grep -Eq "$F" || continue
    P=/verif/seeded/$patch
    if ! git -C /repo apply --check "$P" 2>/dev/null; then echo "$patch: patch does not apply"; bad=1; continue; fi
    git -C /repo apply "$P"
    for chk in $checks; do
      out=$(/verif/run.sh "$chk" quick 2>&1); code=$?
      if [ "$code" = 0 ]; then echo "ok    $patch vs $chk: silent"; else echo "WRONG $patch vs $chk: exit=$code (false alarm)"; bad=1; fi
    done
    git -C /repo checkout -- .
  done < seeded/BENIGN.tsv
fi
/verif/run.sh build >/dev/null
exit $bad
