#!/bin/bash
# seed_matrix.sh [-j N] [filter-regex]
# Replays DESIGN.md §12: every seed of seeded/EXPECTED.tsv is applied to a scratch worktree of /repo,
# the quick tier of each check named for it must exit as expected (1 = caught, 0 = silent); every
# benign refactoring of seeded/BENIGN.tsv must leave the checks named there silent.
# N workers run side by side, each on its own copy of /verif (with its own build directory) and its
# own worktree of /repo under /tmp/mx; /repo and /verif themselves are not touched. Everything
# under /tmp/mx is removed at the end. Development tool - not referenced by MANIFEST.json.
set -u
J=4
if [ "${1:-}" = "-j" ]; then J="$2"; shift 2; fi
F="${1:-.}"
V=/verif
MX=/tmp/mx
rm -rf $MX; mkdir -p $MX/q
# work items: one per seed / benign patch: "<patch path>|<check:want check:want ...>"
awk -F'\t' -v f="$F" '!/^#/ && NF>=3 && ($1" "$2) ~ f {a[$1]=a[$1]" "$2":"$3; if(!($1 in o)){o[$1]=++n; k[n]=$1}} END{for(i=1;i<=n;i++) print "seeded/"k[i]"/patch.diff|"a[k[i]]}' $V/seeded/EXPECTED.tsv > $MX/items
awk -F'\t' -v f="$F" '!/^#/ && NF>=2 && $1 ~ f {s=""; n=split($2,c," "); for(i=1;i<=n;i++) s=s" "c[i]":0"; print "seeded/"$1"|"s}' $V/seeded/BENIGN.tsv >> $MX/items
i=0; while read -r line; do i=$((i+1)); echo "$line" > $MX/q/$(printf %04d $i); done < $MX/items
echo "$(wc -l < $MX/items) work items, $J workers"
worker() {
  local w=$1 W=$MX/w$1
  mkdir -p $W
  rsync -a --exclude .git --exclude replays --exclude evidence $V/ $W/verif/
  git -C /repo worktree add --detach $W/repo HEAD >/dev/null 2>&1
  while :; do
    item=$(ls $MX/q 2>/dev/null | head -1); [ -z "$item" ] && break
    mv $MX/q/$item $W/item 2>/dev/null || continue
    IFS='|' read -r patch checks < $W/item
    name=${patch#seeded/}; name=${name%/patch.diff}
    if ! git -C $W/repo apply --check $V/$patch 2>/dev/null; then echo "WRONG $name: patch does not apply"; continue; fi
    git -C $W/repo apply $V/$patch
    for cw in $checks; do
      c=${cw%%:*}; want=${cw##*:}
      VERIF_REPO=$W/repo $W/verif/run.sh $c quick > $W/out 2>&1; code=$?
      if [ "$code" = "$want" ]; then echo "ok    $name vs $c: exit=$code"; else echo "WRONG $name vs $c: exit=$code, expected $want"; grep -E "^(VIOLATION|MACHINERY)" $W/out | head -3; fi
    done
    git -C $W/repo checkout -- .
  done
  git -C /repo worktree remove --force $W/repo >/dev/null 2>&1
}
for w in $(seq 1 $J); do worker $w > $MX/log$w 2>&1 & done
wait
cat $MX/log* | sort -k2 > $V/seeded/MATRIX.last.txt
cat $V/seeded/MATRIX.last.txt
bad=$(grep -c "^WRONG" $V/seeded/MATRIX.last.txt)
rm -rf $MX; git -C /repo worktree prune
echo "mismatches: $bad"
[ "$bad" = 0 ]
