#!/usr/bin/env python3
"""Derive the instrumented copy of /repo's current working tree.

usage: instrument.py <repo> <dest> <path-to-rxverif-rt>

* copies Cargo.toml, Cargo.lock, README.md, src/** (files whose content is
  unchanged keep their mtime, so cargo's fingerprints stay valid);
* rewrites the path root `std::` to `crate::vstd::` (`$crate::vstd::` inside
  macro_rules! bodies) in every src/**/*.rs;
* appends to src/lib.rs the module `vstd` = `pub use std::*` + sub-modules
  that shadow sync / thread / time / collections with the facade;
* appends read-only probe accessors to the subject types;
* adds the dependency on rxverif-rt.
Deterministic; prints a content hash of everything it read.
"""
import hashlib
import os
import re
import sys

STD = re.compile(r'(?<![A-Za-z0-9_])(?:::)?std::')
CORE_ATOMIC = re.compile(r'(?<![A-Za-z0-9_])(?:::)?core::sync::atomic')

VSTD = r'''

// ---- appended by /verif/tools/instrument.py (not part of the repository) ----
#[doc(hidden)]
#[allow(unused_imports)]
pub mod vstd {
  pub use std::*;
  pub mod sync {
    pub use std::sync::*;
    pub use rxverif_rt::sync::{
      Barrier, BarrierWaitResult, Condvar, Mutex, MutexGuard, RwLock, RwLockReadGuard, RwLockWriteGuard, WaitTimeoutResult,
    };
    pub mod atomic {
      pub use rxverif_rt::sync::atomic::*;
    }
    pub mod mpsc {
      pub use rxverif_rt::sync::mpsc::*;
    }
  }
  pub mod thread {
    pub use std::thread::*;
    pub use rxverif_rt::thread::{scope, sleep, spawn, yield_now, Builder, JoinHandle};
  }
  pub mod time {
    pub use std::time::*;
    pub use rxverif_rt::time::{Instant, SystemTime};
  }
  pub mod collections {
    pub use std::collections::*;
    pub use rxverif_rt::collections::{HashMap, HashSet};
  }
}
'''

SUBJECT_ACCESSOR = r'''

// ---- appended by /verif/tools/instrument.py: read-only probe ----
impl<'a, Item> Subject<'a, Item>
where
  Item: Clone + Send + Sync,
{
  #[doc(hidden)]
  pub fn verif_observer_count(&self) -> usize {
    self.%s.read().unwrap().len()
  }
}
'''

FORWARD = r'''

// ---- appended by /verif/tools/instrument.py: read-only probe ----
impl<'a, Item> %s<'a, Item>
where
  Item: Clone + Send + Sync,
{
  #[doc(hidden)]
  pub fn verif_observer_count(&self) -> usize {
    self.%s.verif_observer_count()
  }
}
'''

WRAPPERS = {
  'src/subjects/behavior_subject.rs': 'BehaviorSubject',
  'src/subjects/replay_subject.rs': 'ReplaySubject',
  'src/subjects/async_subject.rs': 'AsyncSubject',
}


def struct_fields(text, name):
  """[(field, type)] of `pub struct <name><..> where .. { .. }` (first match)"""
  m = re.search(r'struct\s+' + name + r'\b[^{;]*\{', text)
  if not m:
    return []
  i = m.end()
  depth = 1
  j = i
  while j < len(text) and depth > 0:
    if text[j] == '{':
      depth += 1
    elif text[j] == '}':
      depth -= 1
    j += 1
  body = text[i:j - 1]
  out = []
  for line in re.split(r',\s*\n', body):
    fm = re.match(r'\s*(?:pub(?:\([^)]*\))?\s+)?([A-Za-z_][A-Za-z0-9_]*)\s*:\s*(.+)', line.strip(), re.S)
    if fm:
      out.append((fm.group(1), ' '.join(fm.group(2).split())))
  return out


def accessor_for(rel, text):
  """the probe appended to a subject file; robust against renamed fields"""
  if rel == 'src/subjects/subject.rs':
    fields = struct_fields(text, 'Subject')
    cands = [f for f, t in fields if 'HashMap' in t and 'Observer' in t]
    if not cands:
      cands = [f for f, t in fields if 'Observer' in t]
    field = cands[0] if cands else 'observers'
    return SUBJECT_ACCESSOR % field
  if rel in WRAPPERS:
    name = WRAPPERS[rel]
    fields = struct_fields(text, name)
    cands = [f for f, t in fields if re.search(r'\bSubject\s*<', t)]
    field = cands[0] if cands else 'subject'
    return FORWARD % (name, field)
  return None


def rewrite(text):
  """std:: -> crate::vstd:: ; inside macro_rules! bodies -> $crate::vstd::"""
  out = []
  i = 0
  n = len(text)
  while i < n:
    m = text.find('macro_rules!', i)
    if m < 0:
      out.append(STD.sub('crate::vstd::', text[i:]))
      break
    out.append(STD.sub('crate::vstd::', text[i:m]))
    # find the extent of the macro definition by bracket matching
    j = m
    depth = 0
    started = False
    while j < n:
      c = text[j]
      if c in '({[':
        depth += 1
        started = True
      elif c in ')}]':
        depth -= 1
        if started and depth == 0:
          j += 1
          break
      j += 1
    out.append(STD.sub('$crate::vstd::', text[m:j]))
    i = j
  res = ''.join(out)
  res = CORE_ATOMIC.sub('crate::vstd::sync::atomic', res)
  return res


def write_if_changed(path, data):
  try:
    with open(path, 'rb') as f:
      if f.read() == data:
        return False
  except FileNotFoundError:
    pass
  os.makedirs(os.path.dirname(path), exist_ok=True)
  with open(path, 'wb') as f:
    f.write(data)
  return True


def main():
  repo, dest, rt = sys.argv[1], sys.argv[2], sys.argv[3]
  h = hashlib.sha256()
  wanted = set()
  changed = 0

  def emit(rel, data):
    nonlocal changed
    wanted.add(rel)
    if write_if_changed(os.path.join(dest, rel), data):
      changed += 1

  for rel in ['Cargo.toml', 'Cargo.lock', 'README.md']:
    p = os.path.join(repo, rel)
    if not os.path.exists(p):
      continue
    data = open(p, 'rb').read()
    h.update(rel.encode() + b'\0' + data)
    if rel == 'Cargo.toml':
      t = data.decode()
      dep = 'rxverif-rt = { path = "%s" }\n' % rt
      if re.search(r'^\[dependencies\]\s*$', t, re.M):
        t = re.sub(r'^(\[dependencies\]\s*\n)', lambda m: m.group(1) + dep, t, count=1, flags=re.M)
      else:
        t += '\n[dependencies]\n' + dep
      data = t.encode()
    emit(rel, data)

  src = os.path.join(repo, 'src')
  for root, dirs, files in os.walk(src):
    dirs.sort()
    for fn in sorted(files):
      p = os.path.join(root, fn)
      rel = os.path.relpath(p, repo)
      data = open(p, 'rb').read()
      h.update(rel.encode() + b'\0' + data)
      if fn.endswith('.rs'):
        t = rewrite(data.decode())
        if rel == 'src/lib.rs':
          t += VSTD
        acc = accessor_for(rel, t)
        if acc:
          t += acc
        data = t.encode()
      emit(rel, data)

  # remove files that no longer exist in the repo
  for root, dirs, files in os.walk(dest):
    if os.path.relpath(root, dest).startswith('target'):
      continue
    for fn in files:
      rel = os.path.relpath(os.path.join(root, fn), dest)
      if rel not in wanted and not rel.startswith('target') and rel != '.thread_local':
        os.remove(os.path.join(root, fn))
        changed += 1
  # thread-local state in the code under test: the harness must not pool OS threads (run.sh reads this)
  tl = False
  for root, dirs, files in os.walk(src):
    for fn in files:
      if fn.endswith('.rs'):
        s = open(os.path.join(root, fn), errors='replace').read()
        # thread-local state, or code that looks at the identity / name of the thread it runs on: a pooled OS
        # thread would carry the one over and cannot take the other
        if 'thread_local!' in s or '#[thread_local]' in s or 'LocalKey' in s or '.name()' in s or 'Builder::new().name(' in s or '.name(' in s and 'thread::Builder' in s:
          tl = True
  with open(os.path.join(dest, '.thread_local'), 'w') as f:
    f.write('1' if tl else '0')
  print(h.hexdigest(), changed)


if __name__ == '__main__':
  main()
