//! Planted bugs for the engine itself: the explorer must find each at the
//! expected minimal bound and must report nothing on the corrected twin.
use rxverif_rt::exec::{ExecEnd, ThreadEnd, EndKind, ExecCfg};
use rxverif_rt::explore::*;
use rxverif_rt::sync::{Condvar, Mutex, RwLock};
use rxverif_rt::thread;
use std::sync::Arc;
use std::time::Duration;

struct S<F: Fn() -> (Body, Check) + Send + Sync>(&'static str, F, ExecCfg);
impl<F: Fn() -> (Body, Check) + Send + Sync> Scenario for S<F> {
  fn name(&self) -> String { self.0.to_string() }
  fn instantiate(&self) -> (Body, Check) { (self.1)() }
  fn cfg(&self) -> ExecCfg { self.2.clone() }
}
fn cfg(bound: u32) -> ExploreCfg {
  ExploreCfg { bound, workers: 4, max_execs: 2_000_000, wall_cap: Duration::from_secs(120), max_violations: 8 }
}
fn v(class: &str, d: String) -> Vec<Violation> { vec![Violation { class: class.into(), detail: d }] }

fn lost_update(atomic: bool) -> impl Scenario {
  S("lost_update", move || {
    let n = Arc::new(RwLock::new(0));
    let n2 = n.clone();
    let body: Body = Box::new(move || {
      let hs: Vec<_> = (0..2).map(|_| { let n = n.clone(); thread::spawn(move || {
        if atomic { *n.write().unwrap() += 1; } else { let x = *n.read().unwrap(); *n.write().unwrap() = x + 1; }
      })}).collect();
      for h in hs { h.join().unwrap(); }
    });
    let check: Check = Box::new(move |_e: &ExecEnd| {
      let x = *n2.read().unwrap();
      Verdict { outcome: format!("{}", x), violations: if x != 2 { v("lost-update", format!("n={}", x)) } else { vec![] } }
    });
    (body, check)
  }, ExecCfg::default())
}

#[test]
fn finds_lost_update_at_bound_1() {
  let s0 = explore(&lost_update(false), &cfg(0));
  assert!(s0.violations.is_empty(), "bound 0 must not find it: {:?}", s0.violations);
  let s1 = explore(&lost_update(false), &cfg(1));
  assert_eq!(s1.violations.len(), 1, "{:?}", s1);
  assert!(s1.machinery.is_empty(), "{:?}", s1.machinery);
  let s2 = explore(&lost_update(true), &cfg(3));
  assert!(s2.violations.is_empty());
  assert!(s2.execs > 10 && s2.distinct_conflict_orders >= 2, "{:?}", s2);
}

fn abba(fixed: bool) -> impl Scenario {
  S("abba", move || {
    let a = Arc::new(Mutex::new(0)); let b = Arc::new(Mutex::new(0));
    let body: Body = Box::new(move || {
      let (a1, b1) = (a.clone(), b.clone());
      let t = thread::spawn(move || { let _x = a1.lock().unwrap(); let _y = b1.lock().unwrap(); });
      if fixed { let _x = a.lock().unwrap(); let _y = b.lock().unwrap(); }
      else { let _y = b.lock().unwrap(); let _x = a.lock().unwrap(); }
      t.join().unwrap();
    });
    let check: Check = Box::new(move |e: &ExecEnd| {
      Verdict { outcome: format!("{}", e.deadlocked()), violations: if e.deadlocked() { v("deadlock", e.blocked_desc.join(";")) } else { vec![] } }
    });
    (body, check)
  }, ExecCfg::default())
}

#[test]
fn finds_abba_deadlock() {
  let s = explore(&abba(false), &cfg(1));
  assert_eq!(s.violations.len(), 1, "{:?}", s);
  assert!(!s.violations[0].trace.is_empty());
  let s = explore(&abba(true), &cfg(3));
  assert!(s.violations.is_empty());
}

fn recursive_read(fixed: bool) -> impl Scenario {
  S("recursive_read", move || {
    let l = Arc::new(RwLock::new(0));
    let body: Body = Box::new(move || {
      let l1 = l.clone();
      let t = thread::spawn(move || { *l1.write().unwrap() += 1; });
      {
        let g = l.read().unwrap();
        if fixed { drop(g); let _h = l.read().unwrap(); } else { let _h = l.read().unwrap(); let _ = *g; }
      }
      t.join().unwrap();
    });
    let check: Check = Box::new(move |e: &ExecEnd| {
      let bad = matches!(e.kind, EndKind::SelfDeadlock{..}) || e.deadlocked();
      Verdict { outcome: format!("{}", bad), violations: if bad { v("deadlock", format!("{:?} {}", e.kind, e.blocked_desc.join(";"))) } else { vec![] } }
    });
    (body, check)
  }, ExecCfg::default())
}

#[test]
fn finds_recursive_read_with_waiting_writer() {
  let s0 = explore(&recursive_read(false), &cfg(0));
  assert!(s0.violations.is_empty());
  let s = explore(&recursive_read(false), &cfg(1));
  assert_eq!(s.violations.len(), 1, "{:?}", s);
  let s = explore(&recursive_read(true), &cfg(3));
  assert!(s.violations.is_empty(), "{:?}", s.violations);
}

// lost wake-up: consumer checks the flag, releases the mutex, and only then waits
fn lost_wakeup(fixed: bool) -> impl Scenario {
  S("lost_wakeup", move || {
    let st = Arc::new((Mutex::new(false), Condvar::new()));
    let body: Body = Box::new(move || {
      let s1 = st.clone();
      let t = thread::spawn(move || {
        if fixed {
          let g = s1.0.lock().unwrap();
          let _g = s1.1.wait_while(g, |ready| !*ready).unwrap();
        } else {
          let ready = *s1.0.lock().unwrap();
          if !ready { let g = s1.0.lock().unwrap(); let _g = s1.1.wait(g).unwrap(); }
        }
      });
      *st.0.lock().unwrap() = true;
      st.1.notify_one();
      t.join().unwrap();
    });
    let check: Check = Box::new(move |e: &ExecEnd| {
      let stuck = !e.cond_blocked().is_empty();
      Verdict { outcome: format!("{}", stuck), violations: if stuck { v("lost-wakeup", e.blocked_desc.join(";")) } else { vec![] } }
    });
    (body, check)
  }, ExecCfg::default())
}

#[test]
fn finds_lost_wakeup() {
  let s = explore(&lost_wakeup(false), &cfg(2));
  assert_eq!(s.violations.len(), 1, "{:?}", s);
  let s = explore(&lost_wakeup(true), &cfg(3));
  assert!(s.violations.is_empty(), "{:?}", s.violations);
  assert!(s.execs > 5);
}

// virtual time: a sleeping worker and a leaked worker
#[test]
fn virtual_time_and_leak() {
  let scn = S("vt", || {
    let log = Arc::new(std::sync::Mutex::new(Vec::<(u64, u64)>::new()));
    let l2 = log.clone();
    let body: Body = Box::new(move || {
      let l = log.clone();
      thread::spawn(move || { for i in 0..3 { thread::sleep(Duration::from_millis(10)); l.lock().unwrap().push((i, rxverif_rt::vtime())); } });
      let idle = Arc::new((Mutex::new(()), Condvar::new()));
      let i2 = idle.clone();
      thread::spawn(move || { let g = i2.0.lock().unwrap(); let _g = i2.1.wait(g).unwrap(); });
      thread::sleep(Duration::from_millis(25));
    });
    let check: Check = Box::new(move |e: &ExecEnd| {
      let got = l2.lock().unwrap().clone();
      let ok = got == vec![(0, 10_000_000), (1, 20_000_000), (2, 30_000_000)];
      let leaked = e.cond_blocked();
      let mut vs = vec![];
      if !ok { vs.push(Violation { class: "time".into(), detail: format!("{:?}", got) }); }
      if leaked != vec![2] { vs.push(Violation { class: "leak-detect".into(), detail: format!("{:?}", e.threads.iter().map(|t| t.end.clone()).collect::<Vec<ThreadEnd>>()) }); }
      Verdict { outcome: format!("{:?}", got), violations: vs }
    });
    (body, check)
  }, ExecCfg::default());
  let s = explore(&scn, &cfg(2));
  assert!(s.violations.is_empty(), "{:?}", s.violations);
  assert!(s.machinery.is_empty(), "{:?}", s.machinery);
}

#[test]
fn replay_is_deterministic() {
  let scn = lost_update(false);
  let s1 = explore(&scn, &cfg(1));
  let f = &s1.violations[0];
  for _ in 0..20 {
    let (_e, v) = replay(&scn, &f.choices);
    assert_eq!(v.outcome, f.outcome);
  }
}

// mpsc facade: a worker fed through a channel; closing the channel ends it
#[test]
fn mpsc_facade_is_controlled() {
  use rxverif_rt::sync::mpsc;
  let scn = S("mpsc", || {
    let got = Arc::new(std::sync::Mutex::new(Vec::<i32>::new()));
    let g2 = got.clone();
    let body: Body = Box::new(move || {
      let (tx, rx) = mpsc::channel::<i32>();
      let g = got.clone();
      let w = thread::spawn(move || { for x in rx { g.lock().unwrap().push(x); } });
      let tx2 = tx.clone();
      let p = thread::spawn(move || { tx2.send(1).unwrap(); tx2.send(2).unwrap(); });
      tx.send(10).unwrap();
      drop(tx);
      p.join().unwrap();
      w.join().unwrap();
    });
    let check: Check = Box::new(move |e: &ExecEnd| {
      let mut v = g2.lock().unwrap().clone();
      let ordered = v.iter().position(|x| *x == 1) < v.iter().position(|x| *x == 2);
      v.sort();
      let ok = v == vec![1, 2, 10] && ordered && e.all_finished();
      Verdict { outcome: format!("{:?}", g2.lock().unwrap()), violations: if ok { vec![] } else { vec![Violation { class: "mpsc".into(), detail: format!("{:?} {:?}", v, e.kind) }] } }
    });
    (body, check)
  }, ExecCfg::default());
  let s = explore(&scn, &cfg(3));
  assert!(s.violations.is_empty(), "{:?}", s.violations);
  assert!(s.machinery.is_empty(), "{:?}", s.machinery);
  assert!(s.distinct_outcomes >= 3, "{:?}", s);
}
