//! Facade for `std::thread`.

use crate::exec::{ctx, Ctx, Exec, Pending};
use std::io;
use std::sync::Arc;
use std::time::Duration;

pub use std::thread::{
  available_parallelism, current, panicking, park, park_timeout, AccessError, LocalKey, Result,
  Scope, ScopedJoinHandle, Thread, ThreadId,
};

enum Inner<T> {
  Std(std::thread::JoinHandle<T>),
  Ctl { exec: Arc<Exec>, tid: usize, h: std::thread::JoinHandle<std::thread::Result<T>> },
}

pub struct JoinHandle<T>(Inner<T>);

impl<T> JoinHandle<T> {
  pub fn join(self) -> Result<T> {
    match self.0 {
      Inner::Std(h) => h.join(),
      Inner::Ctl { exec, tid, h } => {
        if let Some(c) = ctx() {
          c.exec.sched_point(c.tid, Pending::Join(tid));
        }
        let _ = exec;
        match h.join() {
          Ok(r) => r,
          Err(p) => Err(p),
        }
      }
    }
  }
  pub fn is_finished(&self) -> bool {
    match &self.0 {
      Inner::Std(h) => h.is_finished(),
      Inner::Ctl { h, .. } => h.is_finished(),
    }
  }
  pub fn thread(&self) -> &Thread {
    match &self.0 {
      Inner::Std(h) => h.thread(),
      Inner::Ctl { h, .. } => h.thread(),
    }
  }
}

impl<T> std::fmt::Debug for JoinHandle<T> {
  fn fmt(&self, f: &mut std::fmt::Formatter<'_>) -> std::fmt::Result {
    f.debug_struct("JoinHandle").finish_non_exhaustive()
  }
}

fn spawn_controlled<F, T>(c: Ctx, b: std::thread::Builder, f: F) -> io::Result<JoinHandle<T>>
where
  F: FnOnce() -> T + Send + 'static,
  T: Send + 'static,
{
  let tid = c.exec.register_thread(c.tid);
  let exec = c.exec.clone();
  let h = b.spawn(move || exec.thread_main(tid, f));
  match h {
    Ok(h) => {
      // scheduling point after the spawn: the child may run first
      c.exec.sched_point(c.tid, Pending::Point(3));
      Ok(JoinHandle(Inner::Ctl { exec: c.exec, tid, h }))
    }
    Err(e) => {
      std::panic::panic_any(crate::exec::MachineryError(format!(
        "OS refused to spawn a controlled thread: {}",
        e
      )));
    }
  }
}

pub fn spawn<F, T>(f: F) -> JoinHandle<T>
where
  F: FnOnce() -> T + Send + 'static,
  T: Send + 'static,
{
  if let Some(c) = ctx() {
    spawn_controlled(c, std::thread::Builder::new().stack_size(512 * 1024), f).unwrap()
  } else {
    JoinHandle(Inner::Std(std::thread::spawn(f)))
  }
}

#[derive(Debug)]
pub struct Builder {
  name: Option<String>,
  stack: Option<usize>,
}
impl Builder {
  pub fn new() -> Builder {
    Builder { name: None, stack: None }
  }
  pub fn name(mut self, n: String) -> Builder {
    self.name = Some(n);
    self
  }
  pub fn stack_size(mut self, s: usize) -> Builder {
    self.stack = Some(s);
    self
  }
  fn std(self) -> std::thread::Builder {
    let mut b = std::thread::Builder::new();
    if let Some(n) = self.name {
      b = b.name(n);
    }
    if let Some(s) = self.stack {
      b = b.stack_size(s);
    }
    b
  }
  pub fn spawn<F, T>(self, f: F) -> io::Result<JoinHandle<T>>
  where
    F: FnOnce() -> T + Send + 'static,
    T: Send + 'static,
  {
    if let Some(c) = ctx() {
      spawn_controlled(c, self.std(), f)
    } else {
      self.std().spawn(f).map(|h| JoinHandle(Inner::Std(h)))
    }
  }
}

pub fn sleep(d: Duration) {
  if let Some(c) = ctx() {
    c.exec.sleep(c.tid, d.as_nanos().min(u64::MAX as u128) as u64);
  } else if crate::exec::monitor_mode() {
    // sequential runs are untimed: sleeping takes no time
  } else {
    std::thread::sleep(d)
  }
}

pub fn yield_now() {
  if let Some(c) = ctx() {
    c.exec.sched_point(c.tid, Pending::Point(5));
  } else {
    std::thread::yield_now()
  }
}

pub fn scope<'env, F, T>(f: F) -> T
where
  F: for<'scope> FnOnce(&'scope Scope<'scope, 'env>) -> T,
{
  if ctx().is_some() {
    std::panic::panic_any(crate::exec::MachineryError(
      "std::thread::scope is not modelled by the facade".into(),
    ));
  }
  std::thread::scope(f)
}
