//! Facade for `std::thread`.

use crate::exec::{ctx, Ctx, Exec, Pending};
use std::io;
use std::sync::Arc;
use std::time::Duration;

pub use std::thread::{
  available_parallelism, current, panicking, park, park_timeout, AccessError, LocalKey, Result,
  Scope, ScopedJoinHandle, Thread, ThreadId,
};

type Slot<T> = Arc<std::sync::Mutex<Option<std::thread::Result<T>>>>;

enum Inner<T> {
  Std(std::thread::JoinHandle<T>),
  Ctl { exec: Arc<Exec>, tid: usize, slot: Slot<T>, th: Thread },
}

pub struct JoinHandle<T>(Inner<T>);

impl<T> JoinHandle<T> {
  pub fn join(self) -> Result<T> {
    match self.0 {
      Inner::Std(h) => h.join(),
      Inner::Ctl { exec, tid, slot, .. } => {
        let _ = exec;
        if let Some(c) = ctx() {
          c.exec.sched_point(c.tid, Pending::Join(tid));
        }
        // outside a controlled execution (e.g. after it ended): wait for real
        loop {
          if let Some(r) = slot.lock().unwrap_or_else(|e| e.into_inner()).take() {
            return r;
          }
          std::thread::sleep(Duration::from_micros(50));
        }
      }
    }
  }
  pub fn is_finished(&self) -> bool {
    match &self.0 {
      Inner::Std(h) => h.is_finished(),
      Inner::Ctl { slot, .. } => slot.lock().unwrap_or_else(|e| e.into_inner()).is_some(),
    }
  }
  pub fn thread(&self) -> &Thread {
    match &self.0 {
      Inner::Std(h) => h.thread(),
      Inner::Ctl { th, .. } => th,
    }
  }
}

impl<T> std::fmt::Debug for JoinHandle<T> {
  fn fmt(&self, f: &mut std::fmt::Formatter<'_>) -> std::fmt::Result {
    f.debug_struct("JoinHandle").finish_non_exhaustive()
  }
}

fn spawn_controlled<F, T>(c: Ctx, f: F, name: Option<String>) -> io::Result<JoinHandle<T>>
where
  F: FnOnce() -> T + Send + 'static,
  T: Send + 'static,
{
  let tid = c.exec.register_thread(c.tid);
  let exec = c.exec.clone();
  let slot: Slot<T> = Arc::new(std::sync::Mutex::new(None));
  let slot2 = slot.clone();
  let th = crate::exec::pool_run_named(
    Box::new(move || {
      exec.thread_main(tid, f, move |r| {
        *slot2.lock().unwrap_or_else(|e| e.into_inner()) = Some(r);
      })
    }),
    name,
  );
  // scheduling point after the spawn: the child may run first
  c.exec.sched_point(c.tid, Pending::Point(3));
  Ok(JoinHandle(Inner::Ctl { exec: c.exec, tid, slot, th }))
}

pub fn spawn<F, T>(f: F) -> JoinHandle<T>
where
  F: FnOnce() -> T + Send + 'static,
  T: Send + 'static,
{
  if let Some(c) = ctx() {
    spawn_controlled(c, f, None).unwrap()
  } else {
    JoinHandle(Inner::Std(std::thread::spawn(f)))
  }
}

#[derive(Debug)]
pub struct Builder {
  name: Option<String>,
  stack: Option<usize>,
}
impl Builder {
  pub fn new() -> Builder {
    Builder { name: None, stack: None }
  }
  pub fn name(mut self, n: String) -> Builder {
    self.name = Some(n);
    self
  }
  pub fn stack_size(mut self, s: usize) -> Builder {
    self.stack = Some(s);
    self
  }
  fn std(self) -> std::thread::Builder {
    let mut b = std::thread::Builder::new();
    if let Some(n) = self.name {
      b = b.name(n);
    }
    if let Some(s) = self.stack {
      b = b.stack_size(s);
    }
    b
  }
  pub fn spawn<F, T>(self, f: F) -> io::Result<JoinHandle<T>>
  where
    F: FnOnce() -> T + Send + 'static,
    T: Send + 'static,
  {
    if let Some(c) = ctx() {
      let name = self.name.clone();
      spawn_controlled(c, f, name)
    } else {
      self.std().spawn(f).map(|h| JoinHandle(Inner::Std(h)))
    }
  }
}

pub fn sleep(d: Duration) {
  if let Some(c) = ctx() {
    c.exec.sleep(c.tid, d.as_nanos().min(u64::MAX as u128) as u64);
  } else if crate::exec::monitor_mode() {
    // sequential runs are untimed: sleeping takes no time
  } else {
    std::thread::sleep(d)
  }
}

pub fn yield_now() {
  if let Some(c) = ctx() {
    c.exec.sched_point(c.tid, Pending::Point(5));
  } else {
    std::thread::yield_now()
  }
}

pub fn scope<'env, F, T>(f: F) -> T
where
  F: for<'scope> FnOnce(&'scope Scope<'scope, 'env>) -> T,
{
  if ctx().is_some() {
    std::panic::panic_any(crate::exec::MachineryError(
      "std::thread::scope is not modelled by the facade".into(),
    ));
  }
  std::thread::scope(f)
}
