//! The controlled runtime of engine T: exactly one controlled thread runs at a
//! time; at every scheduling point the running thread publishes its pending
//! operation and the runtime decides who runs next, following a recorded
//! choice prefix and then the default (option 0) policy.

use std::any::Any;
use std::cell::RefCell;
use std::collections::HashMap;
use std::panic::{catch_unwind, resume_unwind, AssertUnwindSafe};
use std::sync::{Arc, Condvar as StdCondvar, Mutex as StdMutex, MutexGuard as StdMutexGuard};
use std::sync::OnceLock;

/// Payload used to unwind controlled threads when an execution is torn down.
pub struct AbortToken;
/// Payload raised by the facade in monitor mode (engine S) when the single
/// thread requests a lock it already holds in an incompatible mode.
#[derive(Debug, Clone)]
pub struct SelfDeadlock {
  pub what: String,
}
/// Payload raised in monitor mode when a single-threaded run performs more lock
/// operations than its budget: some loop spins (e.g. a producer polling
/// is_subscribed() on a subscription that never ends).
#[derive(Debug, Clone)]
pub struct Livelock {
  pub ops: u64,
}
/// Payload for "model and reality disagree" and similar harness faults.
#[derive(Debug, Clone)]
pub struct MachineryError(pub String);

#[derive(Clone, Copy, PartialEq, Eq, Debug, Hash)]
pub enum Mode {
  Read,
  Write,
  Mutex,
}

#[derive(Clone, Copy, PartialEq, Eq, Debug)]
pub enum RwPolicy {
  /// std's futex RwLock on Linux: a new reader blocks while a writer waits.
  WriterPreferring,
  ReaderPreferring,
}

#[derive(Clone, Debug, PartialEq)]
pub enum Pending {
  Running,
  Start,
  Acquire { lock: usize, mode: Mode, arrived: bool },
  CondWait { cv: usize, mutex: usize, deadline: Option<u64> },
  Join(usize),
  Sleep(u64),
  Point(u8),
  Finished,
}

#[derive(Clone, Debug, PartialEq)]
pub enum ThreadEnd {
  Finished,
  BlockedLock { lock: usize, mode: Mode },
  BlockedCond { cv: usize },
  BlockedJoin(usize),
  Sleeping,
  Runnable,
}

#[derive(Clone, Debug, PartialEq)]
pub enum EndKind {
  /// no thread enabled, none sleeping (threads may be blocked: see `threads`)
  Quiescent,
  SelfDeadlock { tid: usize, what: String },
  Horizon { what: String },
  Machinery(String),
}

#[derive(Clone, Debug)]
pub struct ThreadInfo {
  pub end: ThreadEnd,
  /// logical step / virtual time at which the thread's body returned
  pub exit_step: Option<u64>,
  pub exit_vt: Option<u64>,
  pub spawn_vt: u64,
  pub spawned_by: usize,
  pub sleeps: u32,
  pub holds: Vec<(usize, Mode)>,
}

/// One recorded choice point.
#[derive(Clone, Copy, Debug)]
pub struct ChoicePoint {
  pub n: u8,
  pub chosen: u8,
  /// bit i set = option i costs one unit of the deviation budget
  pub costs: u32,
  pub fp: u64,
}

#[derive(Clone, Debug)]
pub struct ExecEnd {
  pub kind: EndKind,
  pub threads: Vec<ThreadInfo>,
  pub points: Vec<ChoicePoint>,
  pub steps: u64,
  pub clock: u64,
  pub panics: Vec<(usize, String)>,
  pub conflict_fp: u64,
  pub conflict_locks: usize,
  pub trace: Vec<String>,
  pub blocked_desc: Vec<String>,
}

impl ExecEnd {
  pub fn all_finished(&self) -> bool {
    self.threads.iter().all(|t| t.end == ThreadEnd::Finished)
  }
  pub fn deadlocked(&self) -> bool {
    self.threads.iter().any(|t| {
      matches!(
        t.end,
        ThreadEnd::BlockedLock { .. } | ThreadEnd::BlockedJoin(_)
      )
    })
  }
  pub fn cond_blocked(&self) -> Vec<usize> {
    self
      .threads
      .iter()
      .enumerate()
      .filter(|(_, t)| matches!(t.end, ThreadEnd::BlockedCond { .. }))
      .map(|(i, _)| i)
      .collect()
  }
}

#[derive(Clone, Debug)]
pub struct ExecCfg {
  pub policy: RwPolicy,
  pub max_steps: u64,
  pub max_vt: u64,
  pub trace: bool,
  pub hash_seed: u64,
  /// allow "clock advances although threads are enabled" as a cost-1 option
  pub skew: bool,
  /// also a scheduling point before every lock *release*. Needed only when the
  /// code under test uses try_read/try_write/try_lock, which can observe "held"
  /// without blocking; the explorer switches it on when it sees a try_* call.
  pub release_points: bool,
}

impl Default for ExecCfg {
  fn default() -> Self {
    ExecCfg {
      policy: RwPolicy::WriterPreferring,
      max_steps: 20_000,
      max_vt: 3_600_000_000_000,
      trace: false,
      hash_seed: 0,
      skew: false,
      release_points: false,
    }
  }
}

#[derive(Default, Debug)]
struct LockModel {
  kind_mutex: bool,
  writer: Option<usize>,
  readers: Vec<usize>,
  waiting_w: Vec<usize>,
  waiting_r: Vec<usize>,
}

impl LockModel {
  fn is_free(&self) -> bool {
    self.writer.is_none()
      && self.readers.is_empty()
      && self.waiting_w.is_empty()
      && self.waiting_r.is_empty()
  }
}

struct Th {
  os: Option<std::thread::Thread>,
  pending: Pending,
  info: ThreadInfo,
  cond_notified: bool,
}

struct State {
  threads: Vec<Th>,
  running: Option<usize>,
  locks: HashMap<usize, LockModel>,
  lock_names: HashMap<usize, usize>,
  condvars: HashMap<usize, Vec<usize>>,
  clock: u64,
  steps: u64,
  stamp: u64,
  prefix: Vec<(u8, u64)>,
  points: Vec<ChoicePoint>,
  ended: Option<EndKind>,
  abort: bool,
  live_os: usize,
  panics: Vec<(usize, String)>,
  trace: Vec<String>,
  // conflict-order fingerprint: per lock the set of threads that touched it
  // and the acquisition sequence
  acq_seq: Vec<(usize, usize, Mode)>,
  end_snapshot: Option<(Vec<ThreadInfo>, Vec<String>)>,
}

pub struct Exec {
  m: StdMutex<State>,
  done_cv: StdCondvar,
  pub cfg: ExecCfg,
}

#[derive(Clone)]
pub struct Ctx {
  pub exec: Arc<Exec>,
  pub tid: usize,
}

/// set as soon as any controlled thread calls try_read/try_write/try_lock
pub static TRY_SEEN: std::sync::atomic::AtomicBool = std::sync::atomic::AtomicBool::new(false);

thread_local! {
  static CTX: RefCell<Option<Ctx>> = const { RefCell::new(None) };
  static MONITOR: std::cell::Cell<bool> = const { std::cell::Cell::new(false) };
  static MON_HASH_SEED: std::cell::Cell<u64> = const { std::cell::Cell::new(0) };
}

pub fn ctx() -> Option<Ctx> {
  // while a controlled thread is unwinding (the execution is being torn down,
  // or the code under test panicked) destructors may still use facade
  // primitives: they get plain std behaviour, never a second unwind
  if std::thread::panicking() {
    return None;
  }
  CTX.with(|c| c.borrow().clone())
}
pub fn in_controlled() -> bool {
  CTX.with(|c| c.borrow().is_some())
}
fn set_ctx(c: Option<Ctx>) {
  CTX.with(|x| *x.borrow_mut() = c);
}
pub fn monitor_mode() -> bool {
  MONITOR.with(|m| m.get())
}
thread_local! {
  static MON_OPS: std::cell::Cell<u64> = const { std::cell::Cell::new(0) };
}
pub const MONITOR_OP_BUDGET: u64 = 2_000_000;
/// called by the facade for every lock operation in monitor mode
pub fn monitor_tick() {
  let n = MON_OPS.with(|c| {
    let n = c.get() + 1;
    c.set(n);
    n
  });
  if n > MONITOR_OP_BUDGET && !std::thread::panicking() {
    MON_OPS.with(|c| c.set(0));
    std::panic::panic_any(Livelock { ops: n });
  }
}
pub fn monitor_reset_ops() {
  MON_OPS.with(|c| c.set(0));
}
pub fn set_monitor_mode(on: bool) {
  MONITOR.with(|m| m.set(on));
  // the lock-operation budget is per monitored run
  MON_OPS.with(|c| c.set(0));
}
pub fn set_monitor_hash_seed(s: u64) {
  MON_HASH_SEED.with(|m| m.set(s));
}
pub fn current_hash_seed() -> u64 {
  if let Some(c) = ctx() {
    c.exec.cfg.hash_seed
  } else {
    MON_HASH_SEED.with(|m| m.get())
  }
}

type Guard<'a> = StdMutexGuard<'a, State>;

fn unwind_abort() -> ! {
  resume_unwind(Box::new(AbortToken))
}

pub fn payload_to_string(p: &(dyn Any + Send)) -> String {
  if let Some(s) = p.downcast_ref::<&str>() {
    s.to_string()
  } else if let Some(s) = p.downcast_ref::<String>() {
    s.clone()
  } else if let Some(s) = p.downcast_ref::<SelfDeadlock>() {
    format!("SelfDeadlock: {}", s.what)
  } else if let Some(s) = p.downcast_ref::<Livelock>() {
    format!("Livelock: more than {} lock operations in one single-threaded run", s.ops)
  } else if let Some(s) = p.downcast_ref::<MachineryError>() {
    format!("MachineryError: {}", s.0)
  } else if p.downcast_ref::<AbortToken>().is_some() {
    "AbortToken".to_string()
  } else {
    "<non-string panic payload>".to_string()
  }
}

impl Exec {
  pub fn new(cfg: ExecCfg, prefix: Vec<(u8, u64)>) -> Arc<Exec> {
    let t0 = Th {
      os: Some(std::thread::current()),
      pending: Pending::Running,
      info: ThreadInfo {
        end: ThreadEnd::Runnable,
        exit_step: None,
        exit_vt: None,
        spawn_vt: 0,
        spawned_by: 0,
        sleeps: 0,
        holds: vec![],
      },
      cond_notified: false,
    };
    Arc::new(Exec {
      m: StdMutex::new(State {
        threads: vec![t0],
        running: Some(0),
        locks: HashMap::new(),
        lock_names: HashMap::new(),
        condvars: HashMap::new(),
        clock: 0,
        steps: 0,
        stamp: 0,
        prefix,
        points: Vec::new(),
        ended: None,
        abort: false,
        live_os: 0,
        panics: Vec::new(),
        trace: Vec::new(),
        acq_seq: Vec::new(),
        end_snapshot: None,
      }),
      done_cv: StdCondvar::new(),
      cfg,
    })
  }

  fn lock(&self) -> Guard<'_> {
    self.m.lock().unwrap_or_else(|e| e.into_inner())
  }

  // ---------------------------------------------------------------- model

  fn lock_name(st: &mut State, addr: usize) -> usize {
    let n = st.lock_names.len();
    *st.lock_names.entry(addr).or_insert(n)
  }

  fn available(&self, st: &State, lock: usize, mode: Mode, tid: usize) -> bool {
    match st.locks.get(&lock) {
      None => true,
      Some(l) => match mode {
        Mode::Mutex | Mode::Write => l.writer.is_none() && l.readers.is_empty(),
        Mode::Read => {
          l.writer.is_none()
            && (self.cfg.policy == RwPolicy::ReaderPreferring
              || l.waiting_w.iter().all(|w| *w == tid))
        }
      },
    }
  }

  fn enabled(&self, st: &State, t: usize) -> bool {
    match &st.threads[t].pending {
      Pending::Running | Pending::Finished => false,
      Pending::Start | Pending::Point(_) => true,
      Pending::Acquire { arrived: false, .. } => true,
      Pending::Acquire { lock, mode, arrived: true } => {
        self.available(st, *lock, *mode, t)
      }
      Pending::CondWait { deadline, .. } => {
        deadline.map_or(false, |d| st.clock >= d)
      }
      Pending::Join(x) => st.threads[*x].pending == Pending::Finished,
      Pending::Sleep(u) => st.clock >= *u,
    }
  }

  fn next_wake(&self, st: &State) -> Option<u64> {
    let mut m: Option<u64> = None;
    for th in &st.threads {
      let w = match &th.pending {
        Pending::Sleep(u) => Some(*u),
        Pending::CondWait { deadline: Some(d), .. } => Some(*d),
        _ => None,
      };
      if let Some(w) = w {
        if w > st.clock {
          m = Some(m.map_or(w, |x| x.min(w)));
        }
      }
    }
    m
  }

  fn fingerprint(st: &State, opts: &[usize]) -> u64 {
    // FNV over (tid, pending discriminant) of the offered options
    let mut h: u64 = 0xcbf29ce484222325;
    let mut mix = |x: u64| {
      h ^= x;
      h = h.wrapping_mul(0x100000001b3);
    };
    for &t in opts {
      mix(t as u64 + 1);
      if t < st.threads.len() {
        let d = match &st.threads[t].pending {
          Pending::Running => 1,
          Pending::Start => 2,
          Pending::Acquire { mode, arrived, .. } => {
            10 + (*mode as u64) * 2 + (*arrived as u64)
          }
          Pending::CondWait { .. } => 4,
          Pending::Join(x) => 100 + *x as u64,
          Pending::Sleep(_) => 5,
          Pending::Point(k) => 200 + *k as u64,
          Pending::Finished => 6,
        };
        mix(d);
      }
    }
    h
  }

  /// Generic choice among `n` options; `costs` bit i = option i costs 1.
  fn choose(&self, st: &mut State, n: usize, costs: u32, fp: u64) -> usize {
    debug_assert!(n >= 2 && n <= 32);
    let pos = st.points.len();
    let chosen = if pos < st.prefix.len() {
      let (c, want_fp) = st.prefix[pos];
      if (c as usize) >= n || (want_fp != 0 && want_fp != fp) {
        self.end(
          st,
          EndKind::Machinery(format!(
            "replay divergence at choice point {}: recorded option {} fp {:x}, now {} options fp {:x}",
            pos, c, want_fp, n, fp
          )),
        );
        return usize::MAX;
      }
      c as usize
    } else {
      0
    };
    st.points.push(ChoicePoint { n: n as u8, chosen: chosen as u8, costs, fp });
    chosen
  }

  fn describe_pending(st: &mut State, t: usize) -> String {
    let p = st.threads[t].pending.clone();
    match p {
      Pending::Acquire { lock, mode, arrived } => {
        let n = Self::lock_name(st, lock);
        format!(
          "t{} {}{:?} L{}",
          t,
          if arrived { "wait-" } else { "" },
          mode,
          n
        )
      }
      Pending::CondWait { cv, .. } => {
        let n = Self::lock_name(st, cv);
        format!("t{} condwait C{}", t, n)
      }
      other => format!("t{} {:?}", t, other),
    }
  }

  fn snapshot_end(&self, st: &mut State) {
    let mut infos = Vec::new();
    let mut desc = Vec::new();
    for t in 0..st.threads.len() {
      let end = match &st.threads[t].pending {
        Pending::Finished => ThreadEnd::Finished,
        Pending::Acquire { lock, mode, .. } => {
          ThreadEnd::BlockedLock { lock: *lock, mode: *mode }
        }
        Pending::CondWait { cv, .. } => ThreadEnd::BlockedCond { cv: *cv },
        Pending::Join(x) => ThreadEnd::BlockedJoin(*x),
        Pending::Sleep(_) => ThreadEnd::Sleeping,
        _ => ThreadEnd::Runnable,
      };
      if end != ThreadEnd::Finished {
        let d = Self::describe_pending(st, t);
        let mut holds = Vec::new();
        for (addr, l) in st.locks.iter() {
          if l.writer == Some(t) {
            holds.push((*addr, if l.kind_mutex { Mode::Mutex } else { Mode::Write }));
          }
          for r in &l.readers {
            if *r == t {
              holds.push((*addr, Mode::Read));
            }
          }
        }
        holds.sort_by_key(|h| h.0);
        let hs: Vec<String> = holds
          .iter()
          .map(|(a, m)| {
            let n = Self::lock_name(st, *a);
            format!("{:?} L{}", m, n)
          })
          .collect();
        desc.push(format!("{} holding [{}]", d, hs.join(", ")));
        st.threads[t].info.holds = holds;
      }
      let mut info = st.threads[t].info.clone();
      info.end = end;
      infos.push(info);
    }
    st.end_snapshot = Some((infos, desc));
  }

  /// Terminal: record classification, abort everybody.
  fn end(&self, st: &mut State, kind: EndKind) {
    if st.ended.is_some() {
      return;
    }
    self.snapshot_end(st);
    st.ended = Some(kind);
    st.abort = true;
    st.running = None;
    for th in &st.threads {
      if let Some(t) = &th.os {
        t.unpark();
      }
    }
    self.done_cv.notify_all();
  }

  /// Decide who runs next. Called by the thread holding the baton after it
  /// has published its pending operation (or finished).
  fn pick_next(&self, st: &mut State, me: usize) {
    if st.ended.is_some() {
      return;
    }
    st.steps += 1;
    if st.steps > self.cfg.max_steps {
      self.end(
        st,
        EndKind::Horizon { what: format!("step horizon {} exceeded", self.cfg.max_steps) },
      );
      return;
    }
    loop {
      let mut opts: Vec<usize> = Vec::new();
      let me_enabled = me < st.threads.len() && self.enabled(st, me);
      if me_enabled {
        opts.push(me);
      }
      for t in 0..st.threads.len() {
        if t != me && self.enabled(st, t) {
          opts.push(t);
        }
      }
      if opts.is_empty() {
        if let Some(w) = self.next_wake(st) {
          if w > self.cfg.max_vt {
            self.end(st, EndKind::Horizon { what: "virtual-time horizon".into() });
            return;
          }
          st.clock = w;
          if self.cfg.trace {
            st.trace.push(format!("clock -> {}", w));
          }
          continue;
        }
        self.end(st, EndKind::Quiescent);
        return;
      }
      // optional skew option: advance the clock although threads are enabled
      let skew_to = if self.cfg.skew { self.next_wake(st) } else { None };
      let n = opts.len() + if skew_to.is_some() { 1 } else { 0 };
      let idx = if n == 1 {
        0
      } else {
        let mut costs: u32 = 0;
        if me_enabled {
          for i in 1..opts.len() {
            costs |= 1 << i;
          }
        }
        if skew_to.is_some() {
          costs |= 1 << opts.len();
        }
        let mut fp_opts = opts.clone();
        if skew_to.is_some() {
          fp_opts.push(usize::MAX - 1);
        }
        let fp = Self::fingerprint(st, &fp_opts);
        let i = self.choose(st, n, costs, fp);
        if i == usize::MAX {
          return;
        }
        i
      };
      if idx == opts.len() {
        // skew: jump the clock, then decide again
        st.clock = skew_to.unwrap();
        if self.cfg.trace {
          st.trace.push(format!("clock (skew) -> {}", st.clock));
        }
        continue;
      }
      let next = opts[idx];
      if self.cfg.trace {
        let d = Self::describe_pending(st, next);
        st.trace.push(d);
      }
      st.running = Some(next);
      if next != me {
        if let Some(t) = &st.threads[next].os {
          t.unpark();
        }
      }
      return;
    }
  }

  fn wait_baton<'a>(&'a self, mut st: Guard<'a>, me: usize) -> Guard<'a> {
    loop {
      if st.abort {
        drop(st);
        unwind_abort();
      }
      if st.running == Some(me) {
        return st;
      }
      drop(st);
      std::thread::park();
      st = self.lock();
    }
  }

  fn self_deadlock_check(st: &State, lock: usize, mode: Mode, me: usize, policy: RwPolicy) -> Option<String> {
    let l = st.locks.get(&lock)?;
    match mode {
      Mode::Mutex => {
        if l.writer == Some(me) {
          return Some("Mutex::lock on a mutex the thread already holds".into());
        }
      }
      Mode::Write => {
        if l.writer == Some(me) {
          return Some("RwLock::write while the thread holds the write lock".into());
        }
        if l.readers.contains(&me) {
          return Some("RwLock::write while the thread holds a read lock".into());
        }
      }
      Mode::Read => {
        if l.writer == Some(me) {
          return Some("RwLock::read while the thread holds the write lock".into());
        }
        if policy == RwPolicy::WriterPreferring
          && l.readers.contains(&me)
          && l.waiting_w.iter().any(|w| *w != me)
        {
          return Some(
            "recursive RwLock::read while another thread's write() is waiting (writer-preferring std policy)"
              .into(),
          );
        }
      }
    }
    None
  }

  /// The scheduling point. Publishes `p`, hands the baton over, waits until
  /// scheduled, applies the operation's effect on the model.
  pub fn sched_point(&self, me: usize, p: Pending) {
    let mut st = self.lock();
    if st.abort {
      drop(st);
      unwind_abort();
    }
    st.threads[me].pending = p;
    loop {
      self.pick_next(&mut st, me);
      st = self.wait_baton(st, me);
      match st.threads[me].pending.clone() {
        Pending::Acquire { lock, mode, arrived } => {
          if !arrived {
            if let Some(what) =
              Self::self_deadlock_check(&st, lock, mode, me, self.cfg.policy)
            {
              let n = Self::lock_name(&mut st, lock);
              let what = format!("{} (L{})", what, n);
              self.end(&mut st, EndKind::SelfDeadlock { tid: me, what });
              drop(st);
              unwind_abort();
            }
          }
          if self.available(&st, lock, mode, me) {
            let name = Self::lock_name(&mut st, lock);
            let l = st.locks.entry(lock).or_default();
            match mode {
              Mode::Mutex => {
                l.kind_mutex = true;
                l.writer = Some(me)
              }
              Mode::Write => l.writer = Some(me),
              Mode::Read => l.readers.push(me),
            }
            if arrived {
              l.waiting_w.retain(|w| *w != me);
              l.waiting_r.retain(|w| *w != me);
            }
            st.acq_seq.push((name, me, mode));
            st.threads[me].pending = Pending::Running;
            return;
          } else {
            debug_assert!(!arrived);
            let l = st.locks.entry(lock).or_default();
            match mode {
              Mode::Mutex | Mode::Write => l.waiting_w.push(me),
              Mode::Read => l.waiting_r.push(me),
            }
            st.threads[me].pending = Pending::Acquire { lock, mode, arrived: true };
            continue;
          }
        }
        Pending::CondWait { cv, mutex, .. } => {
          // scheduled while still in CondWait: the deadline fired
          if let Some(ws) = st.condvars.get_mut(&cv) {
            ws.retain(|w| *w != me);
            if ws.is_empty() {
              st.condvars.remove(&cv);
            }
          }
          st.threads[me].cond_notified = false;
          st.threads[me].pending = Pending::Acquire { lock: mutex, mode: Mode::Mutex, arrived: false };
          // fall through to acquire without another choice: re-run loop body
          // by treating us as running and immediately trying the acquire
          if self.available(&st, mutex, Mode::Mutex, me) {
            let name = Self::lock_name(&mut st, mutex);
            let l = st.locks.entry(mutex).or_default();
            l.kind_mutex = true;
            l.writer = Some(me);
            st.acq_seq.push((name, me, Mode::Mutex));
            st.threads[me].pending = Pending::Running;
            return;
          } else {
            let l = st.locks.entry(mutex).or_default();
            l.waiting_w.push(me);
            st.threads[me].pending =
              Pending::Acquire { lock: mutex, mode: Mode::Mutex, arrived: true };
            continue;
          }
        }
        Pending::Sleep(_) => {
          st.threads[me].info.sleeps += 1;
          st.threads[me].pending = Pending::Running;
          return;
        }
        _ => {
          st.threads[me].pending = Pending::Running;
          return;
        }
      }
    }
  }

  pub fn release(&self, me: usize, lock: usize, mode: Mode) {
    if self.cfg.release_points && !std::thread::panicking() {
      let aborting = self.lock().abort;
      if !aborting {
        self.sched_point(me, Pending::Point(7));
      }
    }
    let mut st = self.lock();
    if st.abort {
      return;
    }
    let mut free = false;
    if let Some(l) = st.locks.get_mut(&lock) {
      match mode {
        Mode::Mutex | Mode::Write => {
          if l.writer == Some(me) {
            l.writer = None;
          }
        }
        Mode::Read => {
          if let Some(i) = l.readers.iter().position(|r| *r == me) {
            l.readers.swap_remove(i);
          }
        }
      }
      free = l.is_free();
    }
    if free {
      st.locks.remove(&lock);
    }
  }

  /// try_* support: non-blocking attempt, with a scheduling point before.
  pub fn try_acquire(&self, me: usize, lock: usize, mode: Mode) -> bool {
    TRY_SEEN.store(true, std::sync::atomic::Ordering::Relaxed);
    self.sched_point(me, Pending::Point(1));
    let mut st = self.lock();
    // a try on a lock the thread itself holds simply fails
    let own = st.locks.get(&lock).map_or(false, |l| {
      l.writer == Some(me) || (mode != Mode::Read && l.readers.contains(&me))
    });
    if !own && self.available(&st, lock, mode, me) {
      let name = Self::lock_name(&mut st, lock);
      let l = st.locks.entry(lock).or_default();
      match mode {
        Mode::Mutex => {
          l.kind_mutex = true;
          l.writer = Some(me)
        }
        Mode::Write => l.writer = Some(me),
        Mode::Read => l.readers.push(me),
      }
      st.acq_seq.push((name, me, mode));
      true
    } else {
      false
    }
  }

  /// Condvar::wait: the caller has already dropped the real guard.
  /// Returns true if notified, false if the deadline fired.
  pub fn cond_wait(&self, me: usize, cv: usize, mutex: usize, timeout: Option<u64>) -> bool {
    // scheduling point before the wait takes effect: what the thread read
    // before deciding to wait may be stale by the time it is registered
    self.sched_point(me, Pending::Point(6));
    {
      let mut st = self.lock();
      if st.abort {
        drop(st);
        unwind_abort();
      }
      // release the mutex in the model
      let mut free = false;
      if let Some(l) = st.locks.get_mut(&mutex) {
        if l.writer == Some(me) {
          l.writer = None;
        }
        free = l.is_free();
      }
      if free {
        st.locks.remove(&mutex);
      }
      st.condvars.entry(cv).or_default().push(me);
      st.threads[me].cond_notified = false;
      let deadline = timeout.map(|d| st.clock.saturating_add(d));
      drop(st);
      self.sched_point(me, Pending::CondWait { cv, mutex, deadline });
    }
    let mut st = self.lock();
    let n = st.threads[me].cond_notified;
    st.threads[me].cond_notified = false;
    n
  }

  pub fn notify(&self, me: usize, cv: usize, all: bool) {
    self.sched_point(me, Pending::Point(2));
    let mut st = self.lock();
    let waiters = match st.condvars.get(&cv) {
      Some(w) if !w.is_empty() => w.clone(),
      _ => return,
    };
    let chosen: Vec<usize> = if all {
      waiters.clone()
    } else if waiters.len() == 1 {
      vec![waiters[0]]
    } else {
      let fp = Self::fingerprint(&st, &waiters) ^ 0x5555;
      let i = self.choose(&mut st, waiters.len(), 0, fp);
      if i == usize::MAX {
        drop(st);
        unwind_abort();
      }
      vec![waiters[i]]
    };
    for w in chosen {
      if let Some(ws) = st.condvars.get_mut(&cv) {
        ws.retain(|x| *x != w);
      }
      if let Pending::CondWait { mutex, .. } = st.threads[w].pending.clone() {
        st.threads[w].cond_notified = true;
        let l = st.locks.entry(mutex).or_default();
        l.kind_mutex = true;
        l.waiting_w.push(w);
        st.threads[w].pending =
          Pending::Acquire { lock: mutex, mode: Mode::Mutex, arrived: true };
      }
    }
    if st.condvars.get(&cv).map_or(false, |w| w.is_empty()) {
      st.condvars.remove(&cv);
    }
  }

  pub fn sleep(&self, me: usize, nanos: u64) {
    let until = {
      let st = self.lock();
      st.clock.saturating_add(nanos)
    };
    self.sched_point(me, Pending::Sleep(until));
  }

  pub fn vtime(&self) -> u64 {
    self.lock().clock
  }
  pub fn stamp(&self) -> u64 {
    let mut st = self.lock();
    st.stamp += 1;
    st.stamp
  }
  pub fn steps(&self) -> u64 {
    self.lock().steps
  }

  // -------------------------------------------------------------- threads

  pub fn register_thread(&self, parent: usize) -> usize {
    let mut st = self.lock();
    let tid = st.threads.len();
    let vt = st.clock;
    st.threads.push(Th {
      os: None,
      pending: Pending::Start,
      info: ThreadInfo {
        end: ThreadEnd::Runnable,
        exit_step: None,
        exit_vt: None,
        spawn_vt: vt,
        spawned_by: parent,
        sleeps: 0,
        holds: vec![],
      },
      cond_notified: false,
    });
    st.live_os += 1;
    tid
  }

  /// Body of a controlled OS thread (runs on a pool thread). `store` receives
  /// the thread's result before the model marks the thread finished, so a
  /// joiner that is scheduled afterwards always finds it.
  pub fn thread_main<T>(
    self: &Arc<Self>,
    tid: usize,
    f: impl FnOnce() -> T,
    store: impl FnOnce(std::thread::Result<T>),
  ) {
    struct Live(Arc<Exec>);
    impl Drop for Live {
      fn drop(&mut self) {
        let mut st = self.0.lock();
        st.live_os -= 1;
        drop(st);
        self.0.done_cv.notify_all();
      }
    }
    let _live = Live(self.clone());
    set_ctx(Some(Ctx { exec: self.clone(), tid }));
    let exec = self.clone();
    let r = catch_unwind(AssertUnwindSafe(move || {
      {
        let mut st = exec.lock();
        st.threads[tid].os = Some(std::thread::current());
        let mut st = exec.wait_baton(st, tid);
        // first scheduling: pending Start -> Running
        st.threads[tid].pending = Pending::Running;
      }
      f()
    }));
    match r {
      Ok(v) => {
        store(Ok(v));
        self.finish(tid, None);
      }
      Err(p) => {
        if p.downcast_ref::<AbortToken>().is_some() {
          store(Err(p));
        } else {
          let msg = payload_to_string(&*p);
          store(Err(p));
          self.finish(tid, Some(msg));
        }
      }
    }
    set_ctx(None);
  }

  pub fn finish(&self, tid: usize, panic_msg: Option<String>) {
    let mut st = self.lock();
    if let Some(m) = panic_msg {
      if m.starts_with("MachineryError") {
        self.end(&mut st, EndKind::Machinery(m.clone()));
      }
      st.panics.push((tid, m));
    }
    if st.abort {
      return;
    }
    st.threads[tid].pending = Pending::Finished;
    st.threads[tid].info.exit_step = Some(st.steps);
    st.threads[tid].info.exit_vt = Some(st.clock);
    if self.cfg.trace {
      st.trace.push(format!("t{} exits", tid));
    }
    self.pick_next(&mut st, tid);
  }

  /// Run `body` as controlled thread 0 on the calling OS thread and return
  /// the classified end of the execution.
  pub fn run(self: &Arc<Self>, body: impl FnOnce()) -> ExecEnd {
    set_ctx(Some(Ctx { exec: self.clone(), tid: 0 }));
    let r = catch_unwind(AssertUnwindSafe(body));
    set_ctx(None);
    match r {
      Ok(()) => self.finish(0, None),
      Err(p) => {
        if p.downcast_ref::<AbortToken>().is_none() {
          let msg = payload_to_string(&*p);
          self.finish(0, Some(msg));
        }
      }
    }
    // wait for the end of the execution and for every OS thread to leave
    let mut st = self.lock();
    let t0 = std::time::Instant::now();
    loop {
      if st.ended.is_some() && st.live_os == 0 {
        break;
      }
      let (g, to) = self
        .done_cv
        .wait_timeout(st, std::time::Duration::from_millis(200))
        .unwrap_or_else(|e| e.into_inner());
      st = g;
      if to.timed_out() && st.ended.is_some() {
        // threads may have missed the abort notification
        for th in &st.threads {
          if let Some(t) = &th.os {
            t.unpark();
          }
        }
      }
      if t0.elapsed().as_secs() > 120 {
        let k = EndKind::Machinery(format!(
          "execution did not settle within 120 s wall clock (ended={:?}, live_os={})",
          st.ended, st.live_os
        ));
        if st.ended.is_none() {
          self.end(&mut st, k);
        } else {
          st.ended = Some(k);
        }
        break;
      }
    }
    let kind = st.ended.clone().unwrap();
    let (threads, blocked_desc) = st.end_snapshot.clone().unwrap_or_default();
    // conflict-order fingerprint
    let mut touched: HashMap<usize, Vec<usize>> = HashMap::new();
    for (l, t, _) in &st.acq_seq {
      let v = touched.entry(*l).or_default();
      if !v.contains(t) {
        v.push(*t);
      }
    }
    let mut h: u64 = 0xcbf29ce484222325;
    let mut shared = 0usize;
    for v in touched.values() {
      if v.len() >= 2 {
        shared += 1;
      }
    }
    // rename shared locks by first appearance in the acquisition sequence so
    // that the fingerprint does not depend on addresses
    let mut rename: HashMap<usize, usize> = HashMap::new();
    for (l, t, m) in &st.acq_seq {
      if touched[l].len() >= 2 {
        let k = rename.len();
        let id = *rename.entry(*l).or_insert(k);
        for x in [id as u64 + 1, *t as u64 + 1, *m as u64 + 1] {
          h ^= x;
          h = h.wrapping_mul(0x100000001b3);
        }
      }
    }
    ExecEnd {
      kind,
      threads,
      points: st.points.clone(),
      steps: st.steps,
      clock: st.clock,
      panics: st.panics.clone(),
      conflict_fp: h,
      conflict_locks: shared,
      trace: std::mem::take(&mut st.trace),
      blocked_desc,
    }
  }
}

// ------------------------------------------------------------ harness API

/// Logical clock (strictly increasing over the whole execution).
pub fn stamp() -> u64 {
  match ctx() {
    Some(c) => c.exec.stamp(),
    None => 0,
  }
}
pub fn vtime() -> u64 {
  match ctx() {
    Some(c) => c.exec.vtime(),
    None => 0,
  }
}
pub fn tid() -> usize {
  match ctx() {
    Some(c) => c.tid,
    None => usize::MAX,
  }
}
/// Explicit scheduling point (used by recorders inside callbacks).
pub fn point() {
  if let Some(c) = ctx() {
    c.exec.sched_point(c.tid, Pending::Point(0));
  }
}

static HOOK: std::sync::Once = std::sync::Once::new();
/// Silence the panic messages of controlled threads (they are recorded in
/// `ExecEnd::panics`) and of the tokens used for unwinding.
pub fn install_quiet_panic_hook() {
  HOOK.call_once(|| {
    let prev = std::panic::take_hook();
    std::panic::set_hook(Box::new(move |info| {
      if in_controlled() || monitor_mode() {
        return;
      }
      let p = info.payload();
      if p.downcast_ref::<AbortToken>().is_some() || p.downcast_ref::<SelfDeadlock>().is_some() || p.downcast_ref::<Livelock>().is_some() {
        return;
      }
      prev(info);
    }));
  });
}


// ------------------------------------------------------------ thread pool

type Job = Box<dyn FnOnce() + Send + 'static>;
struct PoolThread {
  job: StdMutex<Option<Job>>,
  thread: OnceLock<std::thread::Thread>,
}
static IDLE: StdMutex<Vec<Arc<PoolThread>>> = StdMutex::new(Vec::new());

/// Run `job` on a pooled OS thread; returns that thread's handle.
pub fn pool_run(job: Job) -> std::thread::Thread {
  pool_run_named(job, None)
}

/// `name`: the name the code under test gave the thread (`thread::Builder::name`); honoured when every
/// controlled thread gets a fresh OS thread - a pooled thread cannot be renamed, which is why
/// `instrument.py` switches pooling off for a tree that looks at thread names
pub fn pool_run_named(job: Job, name: Option<String>) -> std::thread::Thread {
  // the code under test uses thread-local state: a pooled OS thread would carry it from one
  // execution into the next (and from one controlled thread to another) - every controlled thread
  // then gets a fresh OS thread (slower, deterministic)
  static NO_POOL: OnceLock<bool> = OnceLock::new();
  if *NO_POOL.get_or_init(|| std::env::var("RXVERIF_NO_POOL").map_or(false, |v| v == "1")) {
    let h = std::thread::Builder::new()
      .stack_size(1024 * 1024)
      .name(name.unwrap_or_else(|| "rxverif-fresh".into()))
      .spawn(move || {
        let _ = catch_unwind(AssertUnwindSafe(job));
      })
      .unwrap_or_else(|e| std::panic::panic_any(MachineryError(format!("OS refused to spawn a thread: {}", e))));
    return h.thread().clone();
  }
  let idle = IDLE.lock().unwrap_or_else(|e| e.into_inner()).pop();
  if let Some(pt) = idle {
    *pt.job.lock().unwrap_or_else(|e| e.into_inner()) = Some(job);
    let t = pt.thread.get().unwrap().clone();
    t.unpark();
    return t;
  }
  let pt = Arc::new(PoolThread { job: StdMutex::new(Some(job)), thread: OnceLock::new() });
  let pt2 = pt.clone();
  let h = std::thread::Builder::new()
    .stack_size(1024 * 1024)
    .name("rxverif-pool".into())
    .spawn(move || {
      let pt = pt2;
      let _ = pt.thread.set(std::thread::current());
      loop {
        let job = pt.job.lock().unwrap_or_else(|e| e.into_inner()).take();
        match job {
          Some(j) => {
            let _ = catch_unwind(AssertUnwindSafe(j));
            // drain any stale unpark token is unnecessary: park() below is
            // guarded by the job check
            IDLE.lock().unwrap_or_else(|e| e.into_inner()).push(pt.clone());
          }
          None => std::thread::park(),
        }
      }
    })
    .unwrap_or_else(|e| {
      std::panic::panic_any(MachineryError(format!("OS refused to spawn a pool thread: {}", e)))
    });
  let t = h.thread().clone();
  let _ = pt.thread.set(t.clone());
  t
}
