//! Facade for `std::time::{Instant, SystemTime}` on the runtime's virtual clock.

use crate::exec::ctx;
use std::ops::{Add, AddAssign, Sub, SubAssign};
pub use std::time::{Duration, SystemTimeError, TryFromFloatSecsError, UNIX_EPOCH};

#[derive(Copy, Clone, Debug, PartialEq, Eq, PartialOrd, Ord, Hash)]
enum I {
  Real(std::time::Instant),
  Virt(u64),
}

#[derive(Copy, Clone, Debug, PartialEq, Eq, PartialOrd, Ord, Hash)]
pub struct Instant(I);

impl Instant {
  pub fn now() -> Instant {
    match ctx() {
      Some(c) => Instant(I::Virt(c.exec.vtime())),
      None => Instant(I::Real(std::time::Instant::now())),
    }
  }
  pub fn duration_since(&self, earlier: Instant) -> Duration {
    match (self.0, earlier.0) {
      (I::Real(a), I::Real(b)) => a.duration_since(b),
      (I::Virt(a), I::Virt(b)) => Duration::from_nanos(a.saturating_sub(b)),
      _ => Duration::ZERO,
    }
  }
  pub fn checked_duration_since(&self, earlier: Instant) -> Option<Duration> {
    match (self.0, earlier.0) {
      (I::Real(a), I::Real(b)) => a.checked_duration_since(b),
      (I::Virt(a), I::Virt(b)) => a.checked_sub(b).map(Duration::from_nanos),
      _ => None,
    }
  }
  pub fn saturating_duration_since(&self, earlier: Instant) -> Duration {
    self.checked_duration_since(earlier).unwrap_or_default()
  }
  pub fn elapsed(&self) -> Duration {
    Instant::now().duration_since(*self)
  }
  pub fn checked_add(&self, d: Duration) -> Option<Instant> {
    match self.0 {
      I::Real(a) => a.checked_add(d).map(|x| Instant(I::Real(x))),
      // (virtual time is u64 nanoseconds: a duration that does not fit overflows, as it does for std's Instant)
      I::Virt(a) => u64::try_from(d.as_nanos()).ok().and_then(|n| a.checked_add(n)).map(|x| Instant(I::Virt(x))),
    }
  }
  pub fn checked_sub(&self, d: Duration) -> Option<Instant> {
    match self.0 {
      I::Real(a) => a.checked_sub(d).map(|x| Instant(I::Real(x))),
      I::Virt(a) => u64::try_from(d.as_nanos()).ok().and_then(|n| a.checked_sub(n)).map(|x| Instant(I::Virt(x))),
    }
  }
}
impl Add<Duration> for Instant {
  type Output = Instant;
  fn add(self, d: Duration) -> Instant {
    self.checked_add(d).expect("overflow when adding duration to instant")
  }
}
impl AddAssign<Duration> for Instant {
  fn add_assign(&mut self, d: Duration) {
    *self = *self + d;
  }
}
impl Sub<Duration> for Instant {
  type Output = Instant;
  fn sub(self, d: Duration) -> Instant {
    self.checked_sub(d).expect("overflow when subtracting duration from instant")
  }
}
impl SubAssign<Duration> for Instant {
  fn sub_assign(&mut self, d: Duration) {
    *self = *self - d;
  }
}
impl Sub<Instant> for Instant {
  type Output = Duration;
  fn sub(self, o: Instant) -> Duration {
    self.duration_since(o)
  }
}

/// `SystemTime` on the virtual clock: UNIX_EPOCH + 1_000_000 s + virtual time.
#[derive(Copy, Clone, Debug, PartialEq, Eq, PartialOrd, Ord, Hash)]
pub struct SystemTime(std::time::SystemTime);

impl SystemTime {
  pub const UNIX_EPOCH: SystemTime = SystemTime(std::time::UNIX_EPOCH);
  pub fn now() -> SystemTime {
    match ctx() {
      Some(c) => SystemTime(
        std::time::UNIX_EPOCH
          + Duration::from_secs(1_000_000)
          + Duration::from_nanos(c.exec.vtime()),
      ),
      None => SystemTime(std::time::SystemTime::now()),
    }
  }
  pub fn duration_since(&self, earlier: SystemTime) -> Result<Duration, SystemTimeError> {
    self.0.duration_since(earlier.0)
  }
  pub fn elapsed(&self) -> Result<Duration, SystemTimeError> {
    SystemTime::now().duration_since(*self)
  }
  pub fn checked_add(&self, d: Duration) -> Option<SystemTime> {
    self.0.checked_add(d).map(SystemTime)
  }
  pub fn checked_sub(&self, d: Duration) -> Option<SystemTime> {
    self.0.checked_sub(d).map(SystemTime)
  }
  pub fn into_std(self) -> std::time::SystemTime {
    self.0
  }
}
impl Add<Duration> for SystemTime {
  type Output = SystemTime;
  fn add(self, d: Duration) -> SystemTime {
    SystemTime(self.0 + d)
  }
}
impl Sub<Duration> for SystemTime {
  type Output = SystemTime;
  fn sub(self, d: Duration) -> SystemTime {
    SystemTime(self.0 - d)
  }
}
impl AddAssign<Duration> for SystemTime {
  fn add_assign(&mut self, d: Duration) {
    self.0 += d;
  }
}
impl SubAssign<Duration> for SystemTime {
  fn sub_assign(&mut self, d: Duration) {
    self.0 -= d;
  }
}
impl From<std::time::SystemTime> for SystemTime {
  fn from(t: std::time::SystemTime) -> Self {
    SystemTime(t)
  }
}
