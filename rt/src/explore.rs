//! Stateless, deviation-bounded depth-first exploration of all schedules of a
//! scenario (CHESS-style iterative context bounding). Every execution runs the
//! real code to completion under `Exec`.

use crate::exec::{ChoicePoint, EndKind, Exec, ExecCfg, ExecEnd};
use std::collections::HashSet;
use std::sync::atomic::{AtomicBool, AtomicU64, Ordering};
use std::sync::{Arc, Condvar, Mutex};
use std::time::{Duration, Instant};

#[derive(Clone, Debug)]
pub struct Violation {
  pub class: String,
  pub detail: String,
}

pub struct Verdict {
  /// canonical outcome (no addresses), used for the distinct-outcome count
  pub outcome: String,
  pub violations: Vec<Violation>,
}

pub type Body = Box<dyn FnOnce() + Send>;
pub type Check = Box<dyn FnOnce(&ExecEnd) -> Verdict + Send>;

pub trait Scenario: Send + Sync {
  fn name(&self) -> String;
  /// fresh state for one execution: the body run as controlled thread 0 and
  /// the oracle evaluated after the execution ended
  fn instantiate(&self) -> (Body, Check);
  fn cfg(&self) -> ExecCfg {
    ExecCfg::default()
  }
}

#[derive(Clone, Debug)]
pub struct ExploreCfg {
  pub bound: u32,
  pub workers: usize,
  pub max_execs: u64,
  pub wall_cap: Duration,
  pub max_violations: usize,
}

#[derive(Clone, Debug)]
pub struct FoundViolation {
  pub class: String,
  pub detail: String,
  pub choices: Vec<u8>,
  pub cost: u32,
  pub outcome: String,
  pub trace: Vec<String>,
  pub end: String,
  pub count: u64,
}

#[derive(Clone, Debug, Default)]
pub struct ExploreStats {
  pub scenario: String,
  pub bound: u32,
  pub execs: u64,
  pub choice_points: u64,
  pub steps: u64,
  pub per_cost: Vec<u64>,
  pub distinct_outcomes: usize,
  pub distinct_conflict_orders: usize,
  pub max_conflict_locks: usize,
  pub max_points: usize,
  pub capped: Option<String>,
  pub violations: Vec<FoundViolation>,
  pub machinery: Vec<String>,
  pub sample_outcomes: Vec<String>,
  pub wall_s: f64,
}

struct Work {
  prefix: Vec<(u8, u64)>,
  cost: u32,
}

struct Shared {
  stack: Mutex<(Vec<Work>, usize)>, // (pending work, workers busy)
  cv: Condvar,
  stop: AtomicBool,
  execs: AtomicU64,
  points: AtomicU64,
  steps: AtomicU64,
  agg: Mutex<Agg>,
}

#[derive(Default)]
struct Agg {
  per_cost: Vec<u64>,
  outcomes: HashSet<String>,
  conflict: HashSet<u64>,
  max_conflict_locks: usize,
  max_points: usize,
  violations: Vec<FoundViolation>,
  machinery: Vec<String>,
  capped: Option<String>,
}

pub fn run_once(scn: &dyn Scenario, prefix: Vec<(u8, u64)>, trace: bool) -> (ExecEnd, Verdict) {
  let (body, check) = scn.instantiate();
  let mut cfg = scn.cfg();
  cfg.trace = trace;
  if crate::exec::TRY_SEEN.load(Ordering::Relaxed) {
    cfg.release_points = true;
  }
  let exec = Exec::new(cfg, prefix);
  let end = exec.run(body);
  let v = check(&end);
  (end, v)
}

fn cost_of(points: &[ChoicePoint]) -> u32 {
  points.iter().map(|p| ((p.costs >> p.chosen) & 1) as u32).sum()
}

fn end_string(end: &ExecEnd) -> String {
  let mut s = format!("{:?}", end.kind);
  if !end.blocked_desc.is_empty() {
    s.push_str(" | ");
    s.push_str(&end.blocked_desc.join(" ; "));
  }
  if !end.panics.is_empty() {
    s.push_str(&format!(" | panics {:?}", end.panics));
  }
  s
}

/// Replays `choices` (option numbers only; fingerprint 0 = unchecked) with a trace.
pub fn replay(scn: &dyn Scenario, choices: &[u8]) -> (ExecEnd, Verdict) {
  run_once(scn, choices.iter().map(|c| (*c, 0u64)).collect(), true)
}

fn worker(scn: &dyn Scenario, sh: &Shared, cfg: &ExploreCfg, t0: Instant) {
  loop {
    let work = {
      let mut g = sh.stack.lock().unwrap();
      loop {
        if sh.stop.load(Ordering::Relaxed) {
          return;
        }
        if let Some(w) = g.0.pop() {
          g.1 += 1;
          break w;
        }
        if g.1 == 0 {
          sh.cv.notify_all();
          return;
        }
        g = sh.cv.wait(g).unwrap();
      }
    };
    let plen = work.prefix.len();
    let (end, verdict) = run_once(scn, work.prefix, false);
    let n = sh.execs.fetch_add(1, Ordering::Relaxed) + 1;
    sh.points.fetch_add(end.points.len() as u64, Ordering::Relaxed);
    sh.steps.fetch_add(end.steps, Ordering::Relaxed);
    let total_cost = cost_of(&end.points);
    let mut children: Vec<Work> = Vec::new();
    let machinery = matches!(end.kind, EndKind::Machinery(_));
    if !machinery {
      // children: deviate at every point after the prefix
      let mut cost_before = cost_of(&end.points[..plen.min(end.points.len())]);
      for i in plen..end.points.len() {
        let p = end.points[i];
        for alt in (1..p.n).rev() {
          let c = cost_before + ((p.costs >> alt) & 1);
          if c <= cfg.bound {
            let mut pre: Vec<(u8, u64)> =
              end.points[..i].iter().map(|q| (q.chosen, q.fp)).collect();
            pre.push((alt, p.fp));
            children.push(Work { prefix: pre, cost: c });
          }
        }
        cost_before += (p.costs >> p.chosen) & 1;
      }
    }
    {
      let mut a = sh.agg.lock().unwrap();
      let tc = total_cost as usize;
      if a.per_cost.len() <= tc {
        a.per_cost.resize(tc + 1, 0);
      }
      a.per_cost[tc] += 1;
      a.conflict.insert(end.conflict_fp);
      a.max_conflict_locks = a.max_conflict_locks.max(end.conflict_locks);
      a.max_points = a.max_points.max(end.points.len());
      if a.outcomes.len() < 100_000 {
        a.outcomes.insert(verdict.outcome.clone());
      }
      if let EndKind::Machinery(m) = &end.kind {
        a.machinery.push(m.clone());
        sh.stop.store(true, Ordering::Relaxed);
      }
      for v in &verdict.violations {
        let choices: Vec<u8> = end.points.iter().map(|p| p.chosen).collect();
        if let Some(f) = a.violations.iter_mut().find(|f| f.class == v.class) {
          f.count += 1;
          // keep the cheapest, then shortest witness
          if (total_cost, choices.len()) < (f.cost, f.choices.len()) {
            f.detail = v.detail.clone();
            f.choices = choices;
            f.cost = total_cost;
            f.outcome = verdict.outcome.clone();
            f.end = end_string(&end);
          }
        } else if a.violations.len() < cfg.max_violations {
          a.violations.push(FoundViolation {
            class: v.class.clone(),
            detail: v.detail.clone(),
            choices,
            cost: total_cost,
            outcome: verdict.outcome.clone(),
            trace: vec![],
            end: end_string(&end),
            count: 1,
          });
        }
      }
      if n >= cfg.max_execs && a.capped.is_none() {
        a.capped = Some(format!("execution cap {} reached", cfg.max_execs));
        sh.stop.store(true, Ordering::Relaxed);
      }
      if t0.elapsed() > cfg.wall_cap && a.capped.is_none() {
        a.capped = Some(format!("wall-clock cap {:?} reached", cfg.wall_cap));
        sh.stop.store(true, Ordering::Relaxed);
      }
    }
    {
      let mut g = sh.stack.lock().unwrap();
      g.1 -= 1;
      let had = !children.is_empty();
      g.0.extend(children);
      if had || g.1 == 0 {
        sh.cv.notify_all();
      }
    }
    if sh.stop.load(Ordering::Relaxed) {
      sh.cv.notify_all();
      return;
    }
  }
}

pub fn explore(scn: &dyn Scenario, cfg: &ExploreCfg) -> ExploreStats {
  let before = crate::exec::TRY_SEEN.load(Ordering::Relaxed);
  let st = explore_once(scn, cfg);
  if !before && crate::exec::TRY_SEEN.load(Ordering::Relaxed) && st.violations.is_empty() {
    // the code under test uses try_* locks: explore again with scheduling
    // points before lock releases (run_once switches them on from now on)
    let mut st2 = explore_once(scn, cfg);
    st2.wall_s += st.wall_s;
    return st2;
  }
  st
}

fn explore_once(scn: &dyn Scenario, cfg: &ExploreCfg) -> ExploreStats {
  crate::exec::install_quiet_panic_hook();
  let t0 = Instant::now();
  let sh = Shared {
    stack: Mutex::new((vec![Work { prefix: vec![], cost: 0 }], 0)),
    cv: Condvar::new(),
    stop: AtomicBool::new(false),
    execs: AtomicU64::new(0),
    points: AtomicU64::new(0),
    steps: AtomicU64::new(0),
    agg: Mutex::new(Agg::default()),
  };
  std::thread::scope(|s| {
    for _ in 0..cfg.workers.max(1) {
      s.spawn(|| worker(scn, &sh, cfg, t0));
    }
  });
  let mut a = sh.agg.into_inner().unwrap();
  // confirm every violation by replaying its schedule twice
  let mut confirmed = Vec::new();
  for mut f in std::mem::take(&mut a.violations) {
    let (e1, v1) = replay(scn, &f.choices);
    let (e2, v2) = replay(scn, &f.choices);
    let c1: Vec<u8> = e1.points.iter().map(|p| p.chosen).collect();
    let same = v1.outcome == v2.outcome
      && c1 == e2.points.iter().map(|p| p.chosen).collect::<Vec<u8>>()
      && v1.violations.iter().any(|v| v.class == f.class)
      && v2.violations.iter().any(|v| v.class == f.class);
    if same {
      f.trace = e1.trace.clone();
      confirmed.push(f);
    } else {
      a.machinery.push(format!(
        "violation '{}' did not reproduce on replay (outcomes '{}' / '{}')",
        f.class, v1.outcome, v2.outcome
      ));
    }
  }
  let mut samples: Vec<String> = a.outcomes.iter().cloned().collect();
  samples.sort();
  samples.truncate(6);
  ExploreStats {
    scenario: scn.name(),
    bound: cfg.bound,
    execs: sh.execs.load(Ordering::Relaxed),
    choice_points: sh.points.load(Ordering::Relaxed),
    steps: sh.steps.load(Ordering::Relaxed),
    per_cost: a.per_cost,
    distinct_outcomes: a.outcomes.len(),
    distinct_conflict_orders: a.conflict.len(),
    max_conflict_locks: a.max_conflict_locks,
    max_points: a.max_points,
    capped: a.capped,
    violations: confirmed,
    machinery: a.machinery,
    sample_outcomes: samples,
    wall_s: t0.elapsed().as_secs_f64(),
  }
}
