//! `HashMap` / `HashSet` with a harness-seeded deterministic hasher, so that
//! iteration order (which decides in which order a Subject notifies its
//! observers and `finalize` tears down upstreams) is reproducible and under
//! the harness's control.

use std::borrow::Borrow;
use std::collections as sc;
use std::hash::{BuildHasher, Hash, Hasher};
use std::ops::{Deref, DerefMut};

#[derive(Clone, Copy, Debug)]
pub struct DetState(u64);
impl Default for DetState {
  fn default() -> Self {
    DetState(crate::exec::current_hash_seed())
  }
}
pub struct DetHasher(u64);
impl Hasher for DetHasher {
  fn finish(&self) -> u64 {
    // final avalanche (splitmix64)
    let mut z = self.0.wrapping_add(0x9e3779b97f4a7c15);
    z = (z ^ (z >> 30)).wrapping_mul(0xbf58476d1ce4e5b9);
    z = (z ^ (z >> 27)).wrapping_mul(0x94d049bb133111eb);
    z ^ (z >> 31)
  }
  fn write(&mut self, bytes: &[u8]) {
    for b in bytes {
      self.0 = (self.0 ^ (*b as u64)).wrapping_mul(0x100000001b3);
    }
  }
}
impl BuildHasher for DetState {
  type Hasher = DetHasher;
  fn build_hasher(&self) -> DetHasher {
    DetHasher(0xcbf29ce484222325 ^ self.0.wrapping_mul(0x9e3779b97f4a7c15))
  }
}

#[derive(Clone, Debug)]
pub struct HashMap<K, V>(sc::HashMap<K, V, DetState>);

impl<K, V> HashMap<K, V> {
  pub fn new() -> Self {
    HashMap(sc::HashMap::with_hasher(DetState::default()))
  }
  pub fn with_capacity(n: usize) -> Self {
    HashMap(sc::HashMap::with_capacity_and_hasher(n, DetState::default()))
  }
}
impl<K, V> Default for HashMap<K, V> {
  fn default() -> Self {
    Self::new()
  }
}
impl<K, V> Deref for HashMap<K, V> {
  type Target = sc::HashMap<K, V, DetState>;
  fn deref(&self) -> &Self::Target {
    &self.0
  }
}
impl<K, V> DerefMut for HashMap<K, V> {
  fn deref_mut(&mut self) -> &mut Self::Target {
    &mut self.0
  }
}
impl<K: Eq + Hash, V: PartialEq> PartialEq for HashMap<K, V> {
  fn eq(&self, o: &Self) -> bool {
    self.0 == o.0
  }
}
impl<K: Eq + Hash, V: Eq> Eq for HashMap<K, V> {}
impl<K, V> IntoIterator for HashMap<K, V> {
  type Item = (K, V);
  type IntoIter = sc::hash_map::IntoIter<K, V>;
  fn into_iter(self) -> Self::IntoIter {
    self.0.into_iter()
  }
}
impl<'a, K, V> IntoIterator for &'a HashMap<K, V> {
  type Item = (&'a K, &'a V);
  type IntoIter = sc::hash_map::Iter<'a, K, V>;
  fn into_iter(self) -> Self::IntoIter {
    self.0.iter()
  }
}
impl<'a, K, V> IntoIterator for &'a mut HashMap<K, V> {
  type Item = (&'a K, &'a mut V);
  type IntoIter = sc::hash_map::IterMut<'a, K, V>;
  fn into_iter(self) -> Self::IntoIter {
    self.0.iter_mut()
  }
}
impl<K: Eq + Hash, V> FromIterator<(K, V)> for HashMap<K, V> {
  fn from_iter<I: IntoIterator<Item = (K, V)>>(it: I) -> Self {
    let mut m = HashMap::new();
    m.0.extend(it);
    m
  }
}
impl<K: Eq + Hash, V> Extend<(K, V)> for HashMap<K, V> {
  fn extend<I: IntoIterator<Item = (K, V)>>(&mut self, it: I) {
    self.0.extend(it)
  }
}
impl<K: Eq + Hash, V, const N: usize> From<[(K, V); N]> for HashMap<K, V> {
  fn from(a: [(K, V); N]) -> Self {
    a.into_iter().collect()
  }
}
impl<K, Q: ?Sized, V> std::ops::Index<&Q> for HashMap<K, V>
where
  K: Eq + Hash + Borrow<Q>,
  Q: Eq + Hash,
{
  type Output = V;
  fn index(&self, k: &Q) -> &V {
    self.0.get(k).expect("no entry found for key")
  }
}

#[derive(Clone, Debug)]
pub struct HashSet<K>(sc::HashSet<K, DetState>);
impl<K> HashSet<K> {
  pub fn new() -> Self {
    HashSet(sc::HashSet::with_hasher(DetState::default()))
  }
  pub fn with_capacity(n: usize) -> Self {
    HashSet(sc::HashSet::with_capacity_and_hasher(n, DetState::default()))
  }
}
impl<K> Default for HashSet<K> {
  fn default() -> Self {
    Self::new()
  }
}
impl<K> Deref for HashSet<K> {
  type Target = sc::HashSet<K, DetState>;
  fn deref(&self) -> &Self::Target {
    &self.0
  }
}
impl<K> DerefMut for HashSet<K> {
  fn deref_mut(&mut self) -> &mut Self::Target {
    &mut self.0
  }
}
impl<K: Eq + Hash> PartialEq for HashSet<K> {
  fn eq(&self, o: &Self) -> bool {
    self.0 == o.0
  }
}
impl<K: Eq + Hash> Eq for HashSet<K> {}
impl<K> IntoIterator for HashSet<K> {
  type Item = K;
  type IntoIter = sc::hash_set::IntoIter<K>;
  fn into_iter(self) -> Self::IntoIter {
    self.0.into_iter()
  }
}
impl<'a, K> IntoIterator for &'a HashSet<K> {
  type Item = &'a K;
  type IntoIter = sc::hash_set::Iter<'a, K>;
  fn into_iter(self) -> Self::IntoIter {
    self.0.iter()
  }
}
impl<K: Eq + Hash> FromIterator<K> for HashSet<K> {
  fn from_iter<I: IntoIterator<Item = K>>(it: I) -> Self {
    let mut m = HashSet::new();
    m.0.extend(it);
    m
  }
}
impl<K: Eq + Hash> Extend<K> for HashSet<K> {
  fn extend<I: IntoIterator<Item = K>>(&mut self, it: I) {
    self.0.extend(it)
  }
}
