//! rxverif-rt: facade for std::sync / std::thread / std::time /
//! std::collections and the controlled runtime + explorer of engine T.
pub mod collections;
pub mod exec;
pub mod explore;
pub mod sync;
pub mod thread;
pub mod time;

pub use exec::{point, stamp, tid, vtime};
