//! Facade for `std::sync::{RwLock, Mutex, Condvar}` and the integer/bool
//! atomics. Pass-through when the calling thread is not controlled.

use crate::exec::{ctx, monitor_mode, Ctx, MachineryError, Mode, Pending, SelfDeadlock};
use std::fmt;
use std::ops::{Deref, DerefMut};
use std::sync::{self as ss, LockResult, PoisonError, TryLockError, TryLockResult};
use std::time::Duration;

fn machinery(msg: String) -> ! {
  std::panic::panic_any(MachineryError(msg))
}
fn self_deadlock(what: &str) -> ! {
  std::panic::panic_any(SelfDeadlock { what: what.to_string() })
}

struct Tok {
  ctx: Option<Ctx>,
  addr: usize,
  mode: Mode,
}
impl Tok {
  fn release(&mut self) {
    if let Some(c) = self.ctx.take() {
      c.exec.release(c.tid, self.addr, self.mode);
    }
  }
}

// ------------------------------------------------------------------ RwLock

pub struct RwLock<T: ?Sized> {
  inner: ss::RwLock<T>,
}

pub struct RwLockReadGuard<'a, T: ?Sized + 'a> {
  g: Option<ss::RwLockReadGuard<'a, T>>,
  tok: Tok,
}
pub struct RwLockWriteGuard<'a, T: ?Sized + 'a> {
  g: Option<ss::RwLockWriteGuard<'a, T>>,
  tok: Tok,
}

impl<T> RwLock<T> {
  pub const fn new(t: T) -> RwLock<T> {
    RwLock { inner: ss::RwLock::new(t) }
  }
  pub fn into_inner(self) -> LockResult<T> {
    self.inner.into_inner()
  }
}

impl<T: ?Sized> RwLock<T> {
  fn addr(&self) -> usize {
    &self.inner as *const _ as *const u8 as usize
  }
  fn wrap_r<'a>(
    &'a self,
    r: LockResult<ss::RwLockReadGuard<'a, T>>,
    c: Option<Ctx>,
  ) -> LockResult<RwLockReadGuard<'a, T>> {
    let tok = Tok { ctx: c, addr: self.addr(), mode: Mode::Read };
    match r {
      Ok(g) => Ok(RwLockReadGuard { g: Some(g), tok }),
      Err(p) => Err(PoisonError::new(RwLockReadGuard { g: Some(p.into_inner()), tok })),
    }
  }
  fn wrap_w<'a>(
    &'a self,
    r: LockResult<ss::RwLockWriteGuard<'a, T>>,
    c: Option<Ctx>,
  ) -> LockResult<RwLockWriteGuard<'a, T>> {
    let tok = Tok { ctx: c, addr: self.addr(), mode: Mode::Write };
    match r {
      Ok(g) => Ok(RwLockWriteGuard { g: Some(g), tok }),
      Err(p) => Err(PoisonError::new(RwLockWriteGuard { g: Some(p.into_inner()), tok })),
    }
  }

  pub fn read(&self) -> LockResult<RwLockReadGuard<'_, T>> {
    if let Some(c) = ctx() {
      c.exec.sched_point(
        c.tid,
        Pending::Acquire { lock: self.addr(), mode: Mode::Read, arrived: false },
      );
      let r = match self.inner.try_read() {
        Ok(g) => Ok(g),
        Err(TryLockError::Poisoned(p)) => Err(p),
        Err(TryLockError::WouldBlock) => {
          machinery("model granted RwLock::read but the real lock is busy".into())
        }
      };
      self.wrap_r(r, Some(c))
    } else if monitor_mode() {
      crate::exec::monitor_tick();
      let r = match self.inner.try_read() {
        Ok(g) => Ok(g),
        Err(TryLockError::Poisoned(p)) => Err(p),
        Err(TryLockError::WouldBlock) => {
          self_deadlock("RwLock::read while the same thread holds the write lock")
        }
      };
      self.wrap_r(r, None)
    } else {
      let r = self.inner.read();
      self.wrap_r(r, None)
    }
  }

  pub fn write(&self) -> LockResult<RwLockWriteGuard<'_, T>> {
    if let Some(c) = ctx() {
      c.exec.sched_point(
        c.tid,
        Pending::Acquire { lock: self.addr(), mode: Mode::Write, arrived: false },
      );
      let r = match self.inner.try_write() {
        Ok(g) => Ok(g),
        Err(TryLockError::Poisoned(p)) => Err(p),
        Err(TryLockError::WouldBlock) => {
          machinery("model granted RwLock::write but the real lock is busy".into())
        }
      };
      self.wrap_w(r, Some(c))
    } else if monitor_mode() {
      crate::exec::monitor_tick();
      let r = match self.inner.try_write() {
        Ok(g) => Ok(g),
        Err(TryLockError::Poisoned(p)) => Err(p),
        Err(TryLockError::WouldBlock) => {
          self_deadlock("RwLock::write while the same thread holds the lock")
        }
      };
      self.wrap_w(r, None)
    } else {
      let r = self.inner.write();
      self.wrap_w(r, None)
    }
  }

  pub fn try_read(&self) -> TryLockResult<RwLockReadGuard<'_, T>> {
    if let Some(c) = ctx() {
      if !c.exec.try_acquire(c.tid, self.addr(), Mode::Read) {
        return Err(TryLockError::WouldBlock);
      }
      let r = match self.inner.try_read() {
        Ok(g) => Ok(g),
        Err(TryLockError::Poisoned(p)) => Err(p),
        Err(TryLockError::WouldBlock) => {
          machinery("model granted try_read but the real lock is busy".into())
        }
      };
      self.wrap_r(r, Some(c)).map_err(TryLockError::Poisoned)
    } else {
      match self.inner.try_read() {
        Ok(g) => self.wrap_r(Ok(g), None).map_err(TryLockError::Poisoned),
        Err(TryLockError::Poisoned(p)) => {
          self.wrap_r(Err(p), None).map_err(TryLockError::Poisoned)
        }
        Err(TryLockError::WouldBlock) => Err(TryLockError::WouldBlock),
      }
    }
  }

  pub fn try_write(&self) -> TryLockResult<RwLockWriteGuard<'_, T>> {
    if let Some(c) = ctx() {
      if !c.exec.try_acquire(c.tid, self.addr(), Mode::Write) {
        return Err(TryLockError::WouldBlock);
      }
      let r = match self.inner.try_write() {
        Ok(g) => Ok(g),
        Err(TryLockError::Poisoned(p)) => Err(p),
        Err(TryLockError::WouldBlock) => {
          machinery("model granted try_write but the real lock is busy".into())
        }
      };
      self.wrap_w(r, Some(c)).map_err(TryLockError::Poisoned)
    } else {
      match self.inner.try_write() {
        Ok(g) => self.wrap_w(Ok(g), None).map_err(TryLockError::Poisoned),
        Err(TryLockError::Poisoned(p)) => {
          self.wrap_w(Err(p), None).map_err(TryLockError::Poisoned)
        }
        Err(TryLockError::WouldBlock) => Err(TryLockError::WouldBlock),
      }
    }
  }

  pub fn is_poisoned(&self) -> bool {
    self.inner.is_poisoned()
  }
  pub fn clear_poison(&self) {
    self.inner.clear_poison()
  }
  pub fn get_mut(&mut self) -> LockResult<&mut T> {
    self.inner.get_mut()
  }
}

impl<T: Default> Default for RwLock<T> {
  fn default() -> Self {
    RwLock::new(T::default())
  }
}
impl<T> From<T> for RwLock<T> {
  fn from(t: T) -> Self {
    RwLock::new(t)
  }
}
impl<T: ?Sized + fmt::Debug> fmt::Debug for RwLock<T> {
  fn fmt(&self, f: &mut fmt::Formatter<'_>) -> fmt::Result {
    match self.inner.try_read() {
      Ok(g) => f.debug_struct("RwLock").field("data", &&*g).finish(),
      Err(_) => f.debug_struct("RwLock").field("data", &"<locked>").finish(),
    }
  }
}

impl<'a, T: ?Sized> Deref for RwLockReadGuard<'a, T> {
  type Target = T;
  fn deref(&self) -> &T {
    self.g.as_ref().unwrap()
  }
}
impl<'a, T: ?Sized> Deref for RwLockWriteGuard<'a, T> {
  type Target = T;
  fn deref(&self) -> &T {
    self.g.as_ref().unwrap()
  }
}
impl<'a, T: ?Sized> DerefMut for RwLockWriteGuard<'a, T> {
  fn deref_mut(&mut self) -> &mut T {
    self.g.as_mut().unwrap()
  }
}
impl<'a, T: ?Sized> Drop for RwLockReadGuard<'a, T> {
  fn drop(&mut self) {
    self.g.take();
    self.tok.release();
  }
}
impl<'a, T: ?Sized> Drop for RwLockWriteGuard<'a, T> {
  fn drop(&mut self) {
    self.g.take();
    self.tok.release();
  }
}
impl<'a, T: ?Sized + fmt::Debug> fmt::Debug for RwLockReadGuard<'a, T> {
  fn fmt(&self, f: &mut fmt::Formatter<'_>) -> fmt::Result {
    (**self).fmt(f)
  }
}
impl<'a, T: ?Sized + fmt::Display> fmt::Display for RwLockReadGuard<'a, T> {
  fn fmt(&self, f: &mut fmt::Formatter<'_>) -> fmt::Result {
    (**self).fmt(f)
  }
}
impl<'a, T: ?Sized + fmt::Debug> fmt::Debug for RwLockWriteGuard<'a, T> {
  fn fmt(&self, f: &mut fmt::Formatter<'_>) -> fmt::Result {
    (**self).fmt(f)
  }
}
impl<'a, T: ?Sized + fmt::Display> fmt::Display for RwLockWriteGuard<'a, T> {
  fn fmt(&self, f: &mut fmt::Formatter<'_>) -> fmt::Result {
    (**self).fmt(f)
  }
}

// ------------------------------------------------------------------- Mutex

pub struct Mutex<T: ?Sized> {
  inner: ss::Mutex<T>,
}
pub struct MutexGuard<'a, T: ?Sized + 'a> {
  g: Option<ss::MutexGuard<'a, T>>,
  lock: &'a Mutex<T>,
  tok: Tok,
}

impl<T> Mutex<T> {
  pub const fn new(t: T) -> Mutex<T> {
    Mutex { inner: ss::Mutex::new(t) }
  }
  pub fn into_inner(self) -> LockResult<T> {
    self.inner.into_inner()
  }
}

impl<T: ?Sized> Mutex<T> {
  fn addr(&self) -> usize {
    &self.inner as *const _ as *const u8 as usize
  }
  fn wrap<'a>(
    &'a self,
    r: LockResult<ss::MutexGuard<'a, T>>,
    c: Option<Ctx>,
  ) -> LockResult<MutexGuard<'a, T>> {
    let tok = Tok { ctx: c, addr: self.addr(), mode: Mode::Mutex };
    match r {
      Ok(g) => Ok(MutexGuard { g: Some(g), lock: self, tok }),
      Err(p) => Err(PoisonError::new(MutexGuard { g: Some(p.into_inner()), lock: self, tok })),
    }
  }
  fn real_after_grant<'a>(&'a self, what: &str) -> LockResult<ss::MutexGuard<'a, T>> {
    match self.inner.try_lock() {
      Ok(g) => Ok(g),
      Err(TryLockError::Poisoned(p)) => Err(p),
      Err(TryLockError::WouldBlock) => {
        machinery(format!("model granted {} but the real mutex is busy", what))
      }
    }
  }
  pub fn lock(&self) -> LockResult<MutexGuard<'_, T>> {
    if let Some(c) = ctx() {
      c.exec.sched_point(
        c.tid,
        Pending::Acquire { lock: self.addr(), mode: Mode::Mutex, arrived: false },
      );
      let r = self.real_after_grant("Mutex::lock");
      self.wrap(r, Some(c))
    } else if monitor_mode() {
      crate::exec::monitor_tick();
      let r = match self.inner.try_lock() {
        Ok(g) => Ok(g),
        Err(TryLockError::Poisoned(p)) => Err(p),
        Err(TryLockError::WouldBlock) => {
          self_deadlock("Mutex::lock while the same thread holds the mutex")
        }
      };
      self.wrap(r, None)
    } else {
      let r = self.inner.lock();
      self.wrap(r, None)
    }
  }
  pub fn try_lock(&self) -> TryLockResult<MutexGuard<'_, T>> {
    if let Some(c) = ctx() {
      if !c.exec.try_acquire(c.tid, self.addr(), Mode::Mutex) {
        return Err(TryLockError::WouldBlock);
      }
      let r = self.real_after_grant("Mutex::try_lock");
      self.wrap(r, Some(c)).map_err(TryLockError::Poisoned)
    } else {
      match self.inner.try_lock() {
        Ok(g) => self.wrap(Ok(g), None).map_err(TryLockError::Poisoned),
        Err(TryLockError::Poisoned(p)) => self.wrap(Err(p), None).map_err(TryLockError::Poisoned),
        Err(TryLockError::WouldBlock) => Err(TryLockError::WouldBlock),
      }
    }
  }
  pub fn is_poisoned(&self) -> bool {
    self.inner.is_poisoned()
  }
  pub fn clear_poison(&self) {
    self.inner.clear_poison()
  }
  pub fn get_mut(&mut self) -> LockResult<&mut T> {
    self.inner.get_mut()
  }
}
impl<T: Default> Default for Mutex<T> {
  fn default() -> Self {
    Mutex::new(T::default())
  }
}
impl<T> From<T> for Mutex<T> {
  fn from(t: T) -> Self {
    Mutex::new(t)
  }
}
impl<T: ?Sized + fmt::Debug> fmt::Debug for Mutex<T> {
  fn fmt(&self, f: &mut fmt::Formatter<'_>) -> fmt::Result {
    match self.inner.try_lock() {
      Ok(g) => f.debug_struct("Mutex").field("data", &&*g).finish(),
      Err(_) => f.debug_struct("Mutex").field("data", &"<locked>").finish(),
    }
  }
}
impl<'a, T: ?Sized> Deref for MutexGuard<'a, T> {
  type Target = T;
  fn deref(&self) -> &T {
    self.g.as_ref().unwrap()
  }
}
impl<'a, T: ?Sized> DerefMut for MutexGuard<'a, T> {
  fn deref_mut(&mut self) -> &mut T {
    self.g.as_mut().unwrap()
  }
}
impl<'a, T: ?Sized> Drop for MutexGuard<'a, T> {
  fn drop(&mut self) {
    self.g.take();
    self.tok.release();
  }
}
impl<'a, T: ?Sized + fmt::Debug> fmt::Debug for MutexGuard<'a, T> {
  fn fmt(&self, f: &mut fmt::Formatter<'_>) -> fmt::Result {
    (**self).fmt(f)
  }
}
impl<'a, T: ?Sized + fmt::Display> fmt::Display for MutexGuard<'a, T> {
  fn fmt(&self, f: &mut fmt::Formatter<'_>) -> fmt::Result {
    (**self).fmt(f)
  }
}

// ----------------------------------------------------------------- Condvar

#[derive(Debug, PartialEq, Eq, Copy, Clone)]
pub struct WaitTimeoutResult(bool);
impl WaitTimeoutResult {
  pub fn timed_out(&self) -> bool {
    self.0
  }
}

#[derive(Default)]
pub struct Condvar {
  inner: ss::Condvar,
  // gives the condvar an address of its own even though ss::Condvar may be
  // zero-sized on some platforms
  _pad: u8,
}

impl fmt::Debug for Condvar {
  fn fmt(&self, f: &mut fmt::Formatter<'_>) -> fmt::Result {
    f.debug_struct("Condvar").finish_non_exhaustive()
  }
}

impl Condvar {
  pub const fn new() -> Condvar {
    Condvar { inner: ss::Condvar::new(), _pad: 0 }
  }
  fn addr(&self) -> usize {
    self as *const _ as *const u8 as usize
  }

  fn controlled_wait<'a, T>(
    &self,
    c: Ctx,
    mut guard: MutexGuard<'a, T>,
    timeout: Option<Duration>,
  ) -> (LockResult<MutexGuard<'a, T>>, bool) {
    let lock = guard.lock;
    // give up the real mutex and forget the model token: cond_wait releases
    // the model mutex itself
    guard.g.take();
    guard.tok.ctx = None;
    drop(guard);
    let notified = c.exec.cond_wait(
      c.tid,
      self.addr(),
      lock.addr(),
      timeout.map(|d| d.as_nanos().min(u64::MAX as u128) as u64),
    );
    let r = lock.real_after_grant("Condvar::wait re-acquire");
    (lock.wrap(r, Some(c)), !notified)
  }

  pub fn wait<'a, T>(&self, guard: MutexGuard<'a, T>) -> LockResult<MutexGuard<'a, T>> {
    if let Some(c) = ctx() {
      self.controlled_wait(c, guard, None).0
    } else if monitor_mode() {
      self_deadlock("Condvar::wait on the only thread of a sequential run")
    } else {
      let mut guard = guard;
      let lock = guard.lock;
      let g = guard.g.take().unwrap();
      drop(guard);
      let r = self.inner.wait(g);
      lock.wrap(r, None)
    }
  }

  pub fn wait_while<'a, T, F>(
    &self,
    guard: MutexGuard<'a, T>,
    mut condition: F,
  ) -> LockResult<MutexGuard<'a, T>>
  where
    F: FnMut(&mut T) -> bool,
  {
    let mut guard = guard;
    while condition(&mut *guard) {
      guard = self.wait(guard)?;
    }
    Ok(guard)
  }

  pub fn wait_timeout<'a, T>(
    &self,
    guard: MutexGuard<'a, T>,
    dur: Duration,
  ) -> LockResult<(MutexGuard<'a, T>, WaitTimeoutResult)> {
    if let Some(c) = ctx() {
      let (r, to) = self.controlled_wait(c, guard, Some(dur));
      match r {
        Ok(g) => Ok((g, WaitTimeoutResult(to))),
        Err(p) => Err(PoisonError::new((p.into_inner(), WaitTimeoutResult(to)))),
      }
    } else {
      let mut guard = guard;
      let lock = guard.lock;
      let g = guard.g.take().unwrap();
      drop(guard);
      match self.inner.wait_timeout(g, dur) {
        Ok((g, t)) => {
          let g = lock.wrap(Ok(g), None).unwrap_or_else(|e| e.into_inner());
          Ok((g, WaitTimeoutResult(t.timed_out())))
        }
        Err(p) => {
          let (g, t) = p.into_inner();
          let g = lock.wrap(Ok(g), None).unwrap_or_else(|e| e.into_inner());
          Err(PoisonError::new((g, WaitTimeoutResult(t.timed_out()))))
        }
      }
    }
  }

  pub fn wait_timeout_while<'a, T, F>(
    &self,
    guard: MutexGuard<'a, T>,
    dur: Duration,
    mut condition: F,
  ) -> LockResult<(MutexGuard<'a, T>, WaitTimeoutResult)>
  where
    F: FnMut(&mut T) -> bool,
  {
    let start = crate::time::Instant::now();
    let mut guard = guard;
    loop {
      if !condition(&mut *guard) {
        return Ok((guard, WaitTimeoutResult(false)));
      }
      let el = start.elapsed();
      if el >= dur {
        return Ok((guard, WaitTimeoutResult(true)));
      }
      let (g, _) = self.wait_timeout(guard, dur - el)?;
      guard = g;
    }
  }

  pub fn notify_one(&self) {
    if let Some(c) = ctx() {
      c.exec.notify(c.tid, self.addr(), false);
    } else {
      self.inner.notify_one();
    }
  }
  pub fn notify_all(&self) {
    if let Some(c) = ctx() {
      c.exec.notify(c.tid, self.addr(), true);
    } else {
      self.inner.notify_all();
    }
  }
}

// ----------------------------------------------------------------- atomics

pub mod atomic {
  pub use std::sync::atomic::{compiler_fence, fence, Ordering};
  use std::sync::atomic as sa;

  fn pt() {
    if let Some(c) = crate::exec::ctx() {
      c.exec.sched_point(c.tid, crate::exec::Pending::Point(4));
    }
  }

  macro_rules! atomic_int {
    ($name:ident, $std:ident, $t:ty) => {
      #[derive(Default, Debug)]
      pub struct $name(sa::$std);
      impl $name {
        pub const fn new(v: $t) -> Self {
          $name(sa::$std::new(v))
        }
        pub fn load(&self, o: Ordering) -> $t {
          pt();
          self.0.load(o)
        }
        pub fn store(&self, v: $t, o: Ordering) {
          pt();
          self.0.store(v, o)
        }
        pub fn swap(&self, v: $t, o: Ordering) -> $t {
          pt();
          self.0.swap(v, o)
        }
        pub fn compare_exchange(
          &self,
          a: $t,
          b: $t,
          s: Ordering,
          f: Ordering,
        ) -> Result<$t, $t> {
          pt();
          self.0.compare_exchange(a, b, s, f)
        }
        pub fn compare_exchange_weak(
          &self,
          a: $t,
          b: $t,
          s: Ordering,
          f: Ordering,
        ) -> Result<$t, $t> {
          pt();
          self.0.compare_exchange(a, b, s, f)
        }
        pub fn fetch_update<F>(&self, s: Ordering, f: Ordering, g: F) -> Result<$t, $t>
        where
          F: FnMut($t) -> Option<$t>,
        {
          pt();
          self.0.fetch_update(s, f, g)
        }
        pub fn into_inner(self) -> $t {
          self.0.into_inner()
        }
        pub fn get_mut(&mut self) -> &mut $t {
          self.0.get_mut()
        }
      }
      impl From<$t> for $name {
        fn from(v: $t) -> Self {
          Self::new(v)
        }
      }
    };
  }
  macro_rules! atomic_arith {
    ($name:ident, $t:ty) => {
      impl $name {
        pub fn fetch_add(&self, v: $t, o: Ordering) -> $t {
          pt();
          self.0.fetch_add(v, o)
        }
        pub fn fetch_sub(&self, v: $t, o: Ordering) -> $t {
          pt();
          self.0.fetch_sub(v, o)
        }
        pub fn fetch_max(&self, v: $t, o: Ordering) -> $t {
          pt();
          self.0.fetch_max(v, o)
        }
        pub fn fetch_min(&self, v: $t, o: Ordering) -> $t {
          pt();
          self.0.fetch_min(v, o)
        }
        pub fn fetch_and(&self, v: $t, o: Ordering) -> $t {
          pt();
          self.0.fetch_and(v, o)
        }
        pub fn fetch_or(&self, v: $t, o: Ordering) -> $t {
          pt();
          self.0.fetch_or(v, o)
        }
        pub fn fetch_xor(&self, v: $t, o: Ordering) -> $t {
          pt();
          self.0.fetch_xor(v, o)
        }
      }
    };
  }
  atomic_int!(AtomicUsize, AtomicUsize, usize);
  atomic_int!(AtomicIsize, AtomicIsize, isize);
  atomic_int!(AtomicU64, AtomicU64, u64);
  atomic_int!(AtomicI64, AtomicI64, i64);
  atomic_int!(AtomicU32, AtomicU32, u32);
  atomic_int!(AtomicI32, AtomicI32, i32);
  atomic_int!(AtomicU16, AtomicU16, u16);
  atomic_int!(AtomicI16, AtomicI16, i16);
  atomic_int!(AtomicU8, AtomicU8, u8);
  atomic_int!(AtomicI8, AtomicI8, i8);
  atomic_int!(AtomicBool, AtomicBool, bool);
  atomic_arith!(AtomicUsize, usize);
  atomic_arith!(AtomicIsize, isize);
  atomic_arith!(AtomicU64, u64);
  atomic_arith!(AtomicI64, i64);
  atomic_arith!(AtomicU32, u32);
  atomic_arith!(AtomicI32, i32);
  atomic_arith!(AtomicU16, u16);
  atomic_arith!(AtomicI16, i16);
  atomic_arith!(AtomicU8, u8);
  atomic_arith!(AtomicI8, i8);
  impl AtomicBool {
    pub fn fetch_and(&self, v: bool, o: Ordering) -> bool {
      pt();
      self.0.fetch_and(v, o)
    }
    pub fn fetch_or(&self, v: bool, o: Ordering) -> bool {
      pt();
      self.0.fetch_or(v, o)
    }
    pub fn fetch_xor(&self, v: bool, o: Ordering) -> bool {
      pt();
      self.0.fetch_xor(v, o)
    }
    pub fn fetch_not(&self, o: Ordering) -> bool {
      pt();
      self.0.fetch_xor(true, o)
    }
  }
  pub use std::sync::atomic::AtomicPtr;
}

// ------------------------------------------------------------------- mpsc
/// `std::sync::mpsc` rebuilt on the facade's Mutex + Condvar, so that a changed
/// tree that communicates through channels is explored like any other code
/// (pass-through mode: ordinary blocking behaviour).
pub mod mpsc {
  use super::{Condvar, Mutex};
  pub use std::sync::mpsc::{RecvError, RecvTimeoutError, SendError, TryRecvError, TrySendError};
  use std::collections::VecDeque;
  use std::sync::Arc;
  use std::time::Duration;

  struct Chan<T> {
    q: Mutex<State<T>>,
    cv: Condvar,
    cv_space: Condvar,
  }
  struct State<T> {
    items: VecDeque<T>,
    senders: usize,
    receiver_alive: bool,
    cap: Option<usize>,
  }

  pub struct Sender<T>(Arc<Chan<T>>);
  pub struct SyncSender<T>(Arc<Chan<T>>);
  pub struct Receiver<T>(Arc<Chan<T>>);

  fn mk<T>(cap: Option<usize>) -> Arc<Chan<T>> {
    Arc::new(Chan {
      q: Mutex::new(State { items: VecDeque::new(), senders: 1, receiver_alive: true, cap }),
      cv: Condvar::new(),
      cv_space: Condvar::new(),
    })
  }
  pub fn channel<T>() -> (Sender<T>, Receiver<T>) {
    let c = mk(None);
    (Sender(c.clone()), Receiver(c))
  }
  pub fn sync_channel<T>(bound: usize) -> (SyncSender<T>, Receiver<T>) {
    let c = mk(Some(bound.max(1)));
    (SyncSender(c.clone()), Receiver(c))
  }

  fn send_impl<T>(c: &Arc<Chan<T>>, t: T) -> Result<(), SendError<T>> {
    let mut g = c.q.lock().unwrap_or_else(|e| e.into_inner());
    loop {
      if !g.receiver_alive {
        return Err(SendError(t));
      }
      if g.cap.map_or(true, |cap| g.items.len() < cap) {
        g.items.push_back(t);
        drop(g);
        c.cv.notify_one();
        return Ok(());
      }
      g = c.cv_space.wait(g).unwrap_or_else(|e| e.into_inner());
    }
  }

  impl<T> Sender<T> {
    pub fn send(&self, t: T) -> Result<(), SendError<T>> {
      send_impl(&self.0, t)
    }
  }
  impl<T> SyncSender<T> {
    pub fn send(&self, t: T) -> Result<(), SendError<T>> {
      send_impl(&self.0, t)
    }
    pub fn try_send(&self, t: T) -> Result<(), TrySendError<T>> {
      let mut g = self.0.q.lock().unwrap_or_else(|e| e.into_inner());
      if !g.receiver_alive {
        return Err(TrySendError::Disconnected(t));
      }
      if g.cap.map_or(true, |cap| g.items.len() < cap) {
        g.items.push_back(t);
        drop(g);
        self.0.cv.notify_one();
        Ok(())
      } else {
        Err(TrySendError::Full(t))
      }
    }
  }
  macro_rules! sender_common {
    ($name:ident) => {
      impl<T> Clone for $name<T> {
        fn clone(&self) -> Self {
          self.0.q.lock().unwrap_or_else(|e| e.into_inner()).senders += 1;
          $name(self.0.clone())
        }
      }
      impl<T> Drop for $name<T> {
        fn drop(&mut self) {
          if std::thread::panicking() {
            // never block or panic while unwinding
            if let Ok(mut g) = self.0.q.try_lock() {
              g.senders = g.senders.saturating_sub(1);
            }
            return;
          }
          let last = {
            let mut g = self.0.q.lock().unwrap_or_else(|e| e.into_inner());
            g.senders = g.senders.saturating_sub(1);
            g.senders == 0
          };
          if last {
            self.0.cv.notify_all();
          }
        }
      }
      impl<T> std::fmt::Debug for $name<T> {
        fn fmt(&self, f: &mut std::fmt::Formatter<'_>) -> std::fmt::Result {
          f.debug_struct(stringify!($name)).finish_non_exhaustive()
        }
      }
    };
  }
  sender_common!(Sender);
  sender_common!(SyncSender);

  impl<T> Receiver<T> {
    pub fn recv(&self) -> Result<T, RecvError> {
      let mut g = self.0.q.lock().unwrap_or_else(|e| e.into_inner());
      loop {
        if let Some(t) = g.items.pop_front() {
          drop(g);
          self.0.cv_space.notify_one();
          return Ok(t);
        }
        if g.senders == 0 {
          return Err(RecvError);
        }
        g = self.0.cv.wait(g).unwrap_or_else(|e| e.into_inner());
      }
    }
    pub fn try_recv(&self) -> Result<T, TryRecvError> {
      let mut g = self.0.q.lock().unwrap_or_else(|e| e.into_inner());
      if let Some(t) = g.items.pop_front() {
        drop(g);
        self.0.cv_space.notify_one();
        return Ok(t);
      }
      if g.senders == 0 {
        Err(TryRecvError::Disconnected)
      } else {
        Err(TryRecvError::Empty)
      }
    }
    pub fn recv_timeout(&self, dur: Duration) -> Result<T, RecvTimeoutError> {
      let start = crate::time::Instant::now();
      let mut g = self.0.q.lock().unwrap_or_else(|e| e.into_inner());
      loop {
        if let Some(t) = g.items.pop_front() {
          drop(g);
          self.0.cv_space.notify_one();
          return Ok(t);
        }
        if g.senders == 0 {
          return Err(RecvTimeoutError::Disconnected);
        }
        let el = start.elapsed();
        if el >= dur {
          return Err(RecvTimeoutError::Timeout);
        }
        let (g2, _) = self.0.cv.wait_timeout(g, dur - el).unwrap_or_else(|e| e.into_inner());
        g = g2;
      }
    }
    pub fn iter(&self) -> Iter<'_, T> {
      Iter(self)
    }
    pub fn try_iter(&self) -> TryIter<'_, T> {
      TryIter(self)
    }
  }
  impl<T> Drop for Receiver<T> {
    fn drop(&mut self) {
      if std::thread::panicking() {
        if let Ok(mut g) = self.0.q.try_lock() {
          g.receiver_alive = false;
        }
        return;
      }
      self.0.q.lock().unwrap_or_else(|e| e.into_inner()).receiver_alive = false;
      self.0.cv_space.notify_all();
    }
  }
  impl<T> std::fmt::Debug for Receiver<T> {
    fn fmt(&self, f: &mut std::fmt::Formatter<'_>) -> std::fmt::Result {
      f.debug_struct("Receiver").finish_non_exhaustive()
    }
  }
  pub struct Iter<'a, T>(&'a Receiver<T>);
  impl<'a, T> Iterator for Iter<'a, T> {
    type Item = T;
    fn next(&mut self) -> Option<T> {
      self.0.recv().ok()
    }
  }
  pub struct TryIter<'a, T>(&'a Receiver<T>);
  impl<'a, T> Iterator for TryIter<'a, T> {
    type Item = T;
    fn next(&mut self) -> Option<T> {
      self.0.try_recv().ok()
    }
  }
  pub struct IntoIter<T>(Receiver<T>);
  impl<T> Iterator for IntoIter<T> {
    type Item = T;
    fn next(&mut self) -> Option<T> {
      self.0.recv().ok()
    }
  }
  impl<T> IntoIterator for Receiver<T> {
    type Item = T;
    type IntoIter = IntoIter<T>;
    fn into_iter(self) -> IntoIter<T> {
      IntoIter(self)
    }
  }
  impl<'a, T> IntoIterator for &'a Receiver<T> {
    type Item = T;
    type IntoIter = Iter<'a, T>;
    fn into_iter(self) -> Iter<'a, T> {
      Iter(self)
    }
  }
}

// ----------------------------------------------------------------- Barrier
pub struct Barrier {
  m: Mutex<(usize, usize)>,
  cv: Condvar,
  n: usize,
}
pub struct BarrierWaitResult(bool);
impl BarrierWaitResult {
  pub fn is_leader(&self) -> bool {
    self.0
  }
}
impl fmt::Debug for Barrier {
  fn fmt(&self, f: &mut fmt::Formatter<'_>) -> fmt::Result {
    f.debug_struct("Barrier").finish_non_exhaustive()
  }
}
impl Barrier {
  pub fn new(n: usize) -> Barrier {
    Barrier { m: Mutex::new((0, 0)), cv: Condvar::new(), n }
  }
  pub fn wait(&self) -> BarrierWaitResult {
    let mut g = self.m.lock().unwrap_or_else(|e| e.into_inner());
    let gen = g.1;
    g.0 += 1;
    if g.0 < self.n {
      while gen == g.1 {
        g = self.cv.wait(g).unwrap_or_else(|e| e.into_inner());
      }
      BarrierWaitResult(false)
    } else {
      g.0 = 0;
      g.1 = g.1.wrapping_add(1);
      drop(g);
      self.cv.notify_all();
      BarrierWaitResult(true)
    }
  }
}
