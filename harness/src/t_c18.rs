//! C18 — the to_vec future resolves once with everything the source emitted.
use crate::tcommon::*;
use another_rxrust::prelude::*;
use another_rxrust::vstd::sync::{Condvar, Mutex as FMutex};
use another_rxrust::vstd::thread;
use rxverif_rt::exec::ExecEnd;
use rxverif_rt::explore::{Body, Check, Verdict};
use std::future::Future;
use std::sync::{Arc, Mutex};
use std::task::{Context, Poll, Wake, Waker};

struct Parker {
  m: FMutex<bool>,
  cv: Condvar,
}
impl Wake for Parker {
  fn wake(self: Arc<Self>) {
    *self.m.lock().unwrap() = true;
    self.cv.notify_one();
  }
}

/// minimal executor on the facade's primitives; returns (output, polls, stamp at which Ready was seen)
/// `handed_over`: the future is first polled by somebody else (a waker nobody
/// waits on), then by the executor with a waker of its own - only the waker of
/// the most recent poll has to be woken (contract of Future::poll)
fn block_on<F: Future>(f: F, handed_over: u32) -> (F::Output, u32, u64) {
  let mut f = Box::pin(f);
  let mut polls = 0;
  for _ in 0..handed_over {
    let other = Arc::new(Parker { m: FMutex::new(false), cv: Condvar::new() });
    let w = Waker::from(other);
    let mut cx = Context::from_waker(&w);
    polls += 1;
    if let Poll::Ready(v) = f.as_mut().poll(&mut cx) {
      return (v, polls, rxverif_rt::stamp());
    }
  }
  let p = Arc::new(Parker { m: FMutex::new(false), cv: Condvar::new() });
  let waker = Waker::from(p.clone());
  let mut cx = Context::from_waker(&waker);
  loop {
    polls += 1;
    if let Poll::Ready(v) = f.as_mut().poll(&mut cx) {
      return (v, polls, rxverif_rt::stamp());
    }
    let mut g = p.m.lock().unwrap();
    while !*g {
      g = p.cv.wait(g).unwrap();
    }
    *g = false;
  }
}

#[derive(Default)]
struct Out {
  result: Option<Result<Vec<i64>, i64>>,
  polls: u32,
  ready_at: u64,
  term_at: u64,
}

fn tovec_scn(script: Vec<Emit<i64>>, sync_source: bool, q: Option<u32>, t: Option<u32>) -> Scn {
  tovec_scn_x(script, sync_source, 0, q, t)
}

fn tovec_scn_x(script: Vec<Emit<i64>>, sync_source: bool, handed_over: u32, q: Option<u32>, t: Option<u32>) -> Scn {
  tovec_scn_y(script, sync_source, handed_over, false, q, t)
}

/// `clone_dropped`: the future is cloned and the clone dropped before the original is awaited
fn tovec_scn_y(script: Vec<Emit<i64>>, sync_source: bool, handed_over: u32, clone_dropped: bool, q: Option<u32>, t: Option<u32>) -> Scn {
  let name = format!(
    "c18/{} P({}){}",
    if sync_source { "synchronous source" } else { "source thread" },
    script.iter().map(emit_label).collect::<Vec<_>>().join(","),
    if clone_dropped { ", a clone of the future dropped first".to_string() } else if handed_over > 0 { format!(", polled {}x by another task first", handed_over) } else { String::new() }
  );
  let mut s = scn(&name, "to_vec", q, t, move || {
    let out = Arc::new(Mutex::new(Out::default()));
    let out2 = out.clone();
    let script2 = script.clone();
    let body: Body = Box::new(move || {
      let sc = script2.clone();
      let o3 = out2.clone();
      let src: Observable<'static, i64> = Observable::create(move |s| {
        let (sc, o3) = (sc.clone(), o3.clone());
        let run = move || {
          for e in &sc {
            match e {
              Emit::N(v) => s.next(*v),
              Emit::E(k) => {
                o3.lock().unwrap().term_at = rxverif_rt::stamp();
                s.error(err(*k))
              }
              Emit::C => {
                o3.lock().unwrap().term_at = rxverif_rt::stamp();
                s.complete()
              }
            }
          }
        };
        if sync_source {
          run();
        } else {
          thread::spawn(run);
        }
      });
      let fut = src.to_vec();
      if clone_dropped {
        let c = fut.clone();
        drop(c);
      }
      let (r, polls, ready_at) = block_on(fut, handed_over);
      let mut o = out2.lock().unwrap();
      o.polls = polls;
      o.ready_at = ready_at;
      o.result = Some(match r {
        Ok(v) => Ok(v.read().unwrap().clone()),
        Err(e) => Err(err_code(&e)),
      });
    });
    let script3 = script.clone();
    let check: Check = Box::new(move |e: &ExecEnd| {
      let mut v = base_violations(e, &[]);
      // main parked forever = lost wake-up (already reported as stuck-worker for t0)
      let o = out.lock().unwrap();
      let items: Vec<i64> = script3.iter().filter_map(|e| if let Emit::N(x) = e { Some(*x) } else { None }).collect();
      let want: Result<Vec<i64>, i64> = match script3.last() {
        Some(Emit::E(k)) => Err(*k),
        _ => Ok(items),
      };
      match &o.result {
        None => {
          if v.is_empty() {
            v.push(viol("future-never-ready", format!("block_on did not return; threads {}", thread_summary(e))));
          }
        }
        Some(r) => {
          if *r != want {
            v.push(viol("wrong-result", format!("to_vec yielded {:?}, source emitted {:?}", r, want)));
          }
          if o.ready_at < o.term_at || o.term_at == 0 {
            v.push(viol("ready-before-terminal", format!("Ready observed at {} but the source signalled its terminal at {}", o.ready_at, o.term_at)));
          }
        }
      }
      Verdict { outcome: format!("{:?} polls={}", o.result, o.polls), violations: v }
    });
    (body, check)
  });
  if sync_source {
    s.min_conflicts = 0;
  }
  s
}

/// to_vec at the end of a pipeline that ends early on a scheduler thread:
/// `src.observe_on(new_thread).take(2).to_vec()` / `src.subscribe_on(new_thread).take(2).to_vec()`
fn piped_scn(subscribe_on: bool, source_thread: bool, q: Option<u32>, t: Option<u32>) -> Scn {
  let name = format!("c18/{} P(n1,n2,n3,C).{}.take(2).to_vec()", if source_thread { "source thread" } else { "synchronous source" }, if subscribe_on { "subscribe_on" } else { "observe_on" });
  scn(&name, "to_vec", q, t, move || {
    let out: Arc<Mutex<Option<Result<Vec<i64>, i64>>>> = Arc::new(Mutex::new(None));
    let out2 = out.clone();
    let body: Body = Box::new(move || {
      let src: Observable<'static, i64> = Observable::create(move |s| {
        let run = move || {
          for v in [1i64, 2, 3] {
            if !s.is_subscribed() {
              return;
            }
            s.next(v);
          }
          s.complete();
        };
        if source_thread {
          thread::spawn(run);
        } else {
          run();
        }
      });
      let nt = schedulers::new_thread_scheduler();
      let o = if subscribe_on { src.subscribe_on(nt) } else { src.observe_on(nt) };
      let (r, _, _) = block_on(o.take(2).to_vec(), 0);
      *out2.lock().unwrap() = Some(match r {
        Ok(v) => Ok(v.read().unwrap().clone()),
        Err(e) => Err(err_code(&e)),
      });
    });
    let check: Check = Box::new(move |e: &ExecEnd| {
      let mut v = base_violations(e, &[]);
      let o = out.lock().unwrap();
      match &*o {
        None => {
          if v.is_empty() {
            v.push(viol("future-never-ready", format!("block_on did not return; threads {}", thread_summary(e))));
          }
        }
        Some(r) => {
          if *r != Ok(vec![1, 2]) {
            v.push(viol("wrong-result", format!("to_vec yielded {:?}, want Ok([1, 2])", r)));
          }
        }
      }
      Verdict { outcome: format!("{:?}", *o), violations: v }
    });
    (body, check)
  })
}

/// to_vec over a source whose completion is decided between two threads: `a.merge(&[b]).to_vec()`
fn merged_scn(q: Option<u32>, t: Option<u32>) -> Scn {
  scn("c18/merge of two source threads P(n1,C)||P(n2,C) .to_vec()", "to_vec", q, t, move || {
    let out: Arc<Mutex<Option<Result<Vec<i64>, i64>>>> = Arc::new(Mutex::new(None));
    let out2 = out.clone();
    let body: Body = Box::new(move || {
      let mk = |v: i64| -> Observable<'static, i64> {
        Observable::create(move |s| {
          thread::spawn(move || {
            s.next(v);
            s.complete();
          });
        })
      };
      let (r, _, _) = block_on(mk(1).merge(&[mk(2)]).to_vec(), 0);
      *out2.lock().unwrap() = Some(match r {
        Ok(v) => Ok(v.read().unwrap().clone()),
        Err(e) => Err(err_code(&e)),
      });
    });
    let check: Check = Box::new(move |e: &ExecEnd| {
      let mut v = base_violations(e, &[]);
      let o = out.lock().unwrap();
      match &*o {
        None => {
          if v.is_empty() {
            v.push(viol("future-never-ready", format!("block_on did not return although both sources have completed; threads {}", thread_summary(e))));
          }
        }
        Some(Ok(items)) => {
          let mut s = items.clone();
          s.sort();
          if s != vec![1, 2] {
            v.push(viol("wrong-result", format!("to_vec yielded {:?}, want the items 1 and 2", items)));
          }
        }
        Some(Err(k)) => v.push(viol("wrong-result", format!("to_vec yielded Err({})", k))),
      }
      Verdict { outcome: format!("{:?}", *o), violations: v }
    });
    (body, check)
  })
}

/// to_vec over a source thread that is gated by a trigger: `src.skip_until(trig)` / `src.take_until(trig)`,
/// the trigger silent for ever or firing from a thread of its own. Whatever the gate lets through, the
/// future is ready once the pipeline below it has terminated - and it terminates when the source does
fn gated_scn(skip: bool, trigger_thread: bool, q: Option<u32>, t: Option<u32>) -> Scn {
  let name = format!(
    "c18/source thread P(n1,C).{}(trigger {}).to_vec()",
    if skip { "skip_until" } else { "take_until" },
    if trigger_thread { "firing from a thread of its own" } else { "silent for ever" }
  );
  scn(&name, "to_vec", q, t, move || {
    let out: Arc<Mutex<Option<Result<Vec<i64>, i64>>>> = Arc::new(Mutex::new(None));
    let out2 = out.clone();
    let body: Body = Box::new(move || {
      let src: Observable<'static, i64> = Observable::create(move |s| {
        thread::spawn(move || {
          s.next(1);
          s.complete();
        });
      });
      let keep: Arc<Mutex<Vec<Observer<'static, i64>>>> = Arc::new(Mutex::new(vec![]));
      let keep2 = keep.clone();
      let trig: Observable<'static, i64> = Observable::create(move |s| {
        if trigger_thread {
          thread::spawn(move || {
            s.next(0);
          });
        } else {
          // keeps its observer, never emits
          keep2.lock().unwrap().push(s.clone());
        }
      });
      let o = if skip { src.skip_until(trig) } else { src.take_until(trig) };
      let (r, _, _) = block_on(o.to_vec(), 0);
      *out2.lock().unwrap() = Some(match r {
        Ok(v) => Ok(v.read().unwrap().clone()),
        Err(e) => Err(err_code(&e)),
      });
      keep.lock().unwrap().clear();
    });
    let check: Check = Box::new(move |e: &ExecEnd| {
      let mut v = base_violations(e, &[]);
      let o = out.lock().unwrap();
      match &*o {
        None => {
          if v.is_empty() {
            v.push(viol("future-never-ready", format!("block_on did not return although the source has completed; threads {}", thread_summary(e))));
          }
        }
        Some(Ok(items)) => {
          let ok = if trigger_thread { items.is_empty() || *items == vec![1] } else if skip { items.is_empty() } else { *items == vec![1] };
          if !ok {
            v.push(viol("wrong-result", format!("to_vec yielded {:?}", items)));
          }
        }
        Some(Err(k)) => v.push(viol("wrong-result", format!("to_vec yielded Err({})", k))),
      }
      Verdict { outcome: format!("{:?}", *o), violations: v }
    });
    (body, check)
  })
}

/// to_vec over a *hot* source (a Subject): the future is created first, then a producer thread pushes
/// while the main thread polls - whatever the order of the first poll and the pushes, the future collects
/// everything pushed after `to_vec()` returned
fn hot_scn(fails: bool, q: Option<u32>, t: Option<u32>) -> Scn {
  let name = format!("c18/Subject.to_vec() created, then a producer thread pushes P(n1,n2,{}) while main polls", if fails { "E7" } else { "C" });
  scn(&name, "to_vec", q, t, move || {
    let out: Arc<Mutex<Option<Result<Vec<i64>, i64>>>> = Arc::new(Mutex::new(None));
    let out2 = out.clone();
    let body: Body = Box::new(move || {
      let sbj = subjects::Subject::<i64>::new();
      let o = sbj.observable();
      let fut = o.to_vec();
      let s2 = sbj.clone();
      let h = thread::spawn(move || {
        s2.next(1);
        s2.next(2);
        if fails {
          s2.error(err(7));
        } else {
          s2.complete();
        }
      });
      let (r, _, _) = block_on(fut, 0);
      *out2.lock().unwrap() = Some(match r {
        Ok(v) => Ok(v.read().unwrap().clone()),
        Err(e) => Err(err_code(&e)),
      });
      let _ = h.join();
    });
    let check: Check = Box::new(move |e: &ExecEnd| {
      let mut v = base_violations(e, &[]);
      let o = out.lock().unwrap();
      let want: Result<Vec<i64>, i64> = if fails { Err(7) } else { Ok(vec![1, 2]) };
      match &*o {
        None => {
          if v.is_empty() {
            v.push(viol("future-never-ready", format!("block_on did not return although the subject has terminated; threads {}", thread_summary(e))));
          }
        }
        Some(r) => {
          if *r != want {
            v.push(viol("wrong-result", format!("to_vec yielded {:?}, want {:?}", r, want)));
          }
        }
      }
      Verdict { outcome: format!("{:?}", *o), violations: v }
    });
    (body, check)
  })
}

pub fn scenarios() -> Vec<Scn> {
  use Emit::*;
  vec![
    tovec_scn(vec![C], false, Some(3), Some(6)),
    tovec_scn(vec![N(1), C], false, Some(3), Some(5)),
    tovec_scn(vec![N(1), N(2), C], false, Some(3), Some(4)),
    tovec_scn(vec![N(1), E(7)], false, Some(3), Some(5)),
    tovec_scn(vec![E(7)], false, Some(3), Some(6)),
    tovec_scn_x(vec![N(1), C], false, 1, Some(3), Some(5)),
    tovec_scn_x(vec![N(1), E(7)], false, 2, Some(2), Some(4)),
    tovec_scn_y(vec![N(1), C], false, 0, true, Some(2), Some(4)),
    merged_scn(Some(2), Some(3)),
    hot_scn(false, Some(2), Some(4)),
    hot_scn(true, Some(2), Some(4)),
    gated_scn(true, false, Some(2), Some(4)),
    gated_scn(true, true, Some(2), Some(3)),
    gated_scn(false, false, Some(2), Some(4)),
    gated_scn(false, true, Some(2), Some(3)),
    piped_scn(false, true, Some(1), Some(2)),
    piped_scn(false, false, Some(1), Some(2)),
    piped_scn(true, false, Some(1), Some(2)),
    tovec_scn(vec![N(1), C], true, Some(1), Some(1)),
    tovec_scn(vec![E(7)], true, Some(1), Some(1)),
  ]
}
