//! Engine S: the reference interpreter — a deliberately naive, single-threaded
//! implementation of the ReactiveX semantics of DESIGN.md Appendix A. It knows
//! nothing about locks, serials or `finalize`: nodes are transducers with
//! explicit state; a node that has delivered a terminal or was cancelled
//! ignores everything (the Observable contract is built in).
use crate::s_ops::{Node, Op};
use crate::s_val::*;
use std::collections::VecDeque;

pub const MAX_SUBSCRIPTIONS_PER_SOURCE: usize = 100;
pub const ENDLESS_CAP: usize = 200;

#[derive(Clone, Debug, PartialEq)]
pub enum SrcKind {
  /// cold: the k-th subscription plays scripts[min(k, len-1)] synchronously
  /// inside subscribe. polite = checks is_subscribed() before every emission
  /// (like from_iter); rude = plays everything regardless.
  Cold { scripts: Vec<Vec<Ev>>, polite: bool },
  /// hot: stores the observer, the driver pushes events
  Hot,
  /// the crate's own `Subject` used as a (well-behaved) hot source
  Subject,
  /// BehaviorSubject::new(0) / ReplaySubject as the hot source: a new subscription is first handed the current value / the history
  BehaviorSubject,
  ReplaySubject,
  /// endless polite producer of the given value (observables::repeat)
  Endless(i64),
  /// one of the crate's creation functions (reference: its definition as a cold script)
  Lib(LibSrc),
}

#[derive(Clone, Debug, PartialEq)]
pub enum LibSrc {
  Just(i64),
  FromIter(Vec<i64>),
  Range(i64, i64),
  Empty,
  Never,
  Error(i64),
  /// defer(|| just(v)) / defer(|| error(k))
  DeferJust(i64),
  DeferError(i64),
  /// start(|| v)
  Start(i64),
  FromResultOk(i64),
  FromResultErr(i64),
  /// repeat(v).take(n)
  RepeatTake(i64, usize),
  SomethingSuccess(i64),
  SomethingError(i64),
}
impl LibSrc {
  pub fn script(&self) -> Vec<Ev> {
    use LibSrc::*;
    match self {
      Just(v) | DeferJust(v) | Start(v) | FromResultOk(v) | SomethingSuccess(v) => vec![Ev::n(*v), Ev::C],
      FromIter(v) => v.iter().map(|x| Ev::n(*x)).chain(std::iter::once(Ev::C)).collect(),
      Range(a, k) => (*a..(*a + *k)).map(Ev::n).chain(std::iter::once(Ev::C)).collect(),
      Empty => vec![Ev::C],
      Never => vec![],
      Error(k) | DeferError(k) | FromResultErr(k) | SomethingError(k) => vec![Ev::E(*k)],
      RepeatTake(v, n) => {
        if *n == 0 {
          vec![Ev::C]
        } else {
          std::iter::repeat(Ev::n(*v)).take(*n).chain(std::iter::once(Ev::C)).collect()
        }
      }
    }
  }
  pub fn all() -> Vec<LibSrc> {
    use LibSrc::*;
    vec![
      Just(1), FromIter(vec![]), FromIter(vec![1]), FromIter(vec![1, 2, 3]), Range(1, 0), Range(1, 3), Range(2, 2), Empty, Never, Error(5),
      DeferJust(2), DeferError(5), Start(3), FromResultOk(1), FromResultErr(5), RepeatTake(2, 0), RepeatTake(2, 1), RepeatTake(2, 3),
      SomethingSuccess(1), SomethingError(5),
    ]
  }
}

#[derive(Clone, Debug)]
pub struct RInst {
  pub node: usize,
  pub alive: bool,
  /// cancelled lazily (amb loser): may still read subscribed until its next attempt
  pub lazy: bool,
  /// how many events the (cold) source delivered before it stopped
  pub emitted: usize,
}

#[derive(Clone, Debug)]
pub struct RSrc {
  pub kind: SrcKind,
  pub insts: Vec<RInst>,
  /// Behavior/Replay subject sources: items pushed so far and the stored terminal
  pub history: Vec<D>,
  pub terminal: Option<Ev>,
}

#[derive(Clone, Debug)]
enum Kind {
  Root(u32),
  Src(usize, usize), // (source index, instance index)
  Script(Vec<Ev>),
  Op(Node),
}

#[derive(Clone, Debug)]
struct RNode {
  kind: Kind,
  parent: Option<(usize, usize)>,
  inputs: Vec<Option<usize>>,
  closed: Vec<bool>,
  done: bool,
  // grab-bag of operator state
  cnt: usize,
  acc: Option<D>,
  buf: Vec<D>,
  flag: bool,
  queues: Vec<VecDeque<D>>,
  latest: Vec<Option<D>>,
  completed: Vec<bool>,
  winner: Option<usize>,
  attempts: usize,
  next_extra: usize,
  inner_ord: u32,
  cur_inner: u32,
  keys: Vec<(i64, u32)>,
  outer_done: bool,
}

pub struct RefWorld {
  pub srcs: Vec<RSrc>,
  nodes: Vec<RNode>,
  /// events delivered to recorders since the last drain: (recorder id, event)
  pub out: Vec<(u32, Ev)>,
  pub all: Vec<(u32, Ev)>,
  pub tap_log: Vec<Ev>,
  /// a polite endless producer hit its cap although nobody listens: never happens in the reference
  pub roots: Vec<usize>,
  pub hit_subscription_cap: bool,
  /// nested subscriptions: (outer recorder, trigger, inner recorder, fired)
  pub nests: Vec<(u32, crate::s_run::Trig, u32, bool)>,
  /// (recorder, trigger, hot source, event, fired): the recorder's callback pushes the event into the source
  pub feeds: Vec<(u32, crate::s_run::Trig, usize, Ev, bool)>,
  /// at every subscription of a source (src, instance): alive and lazy flags of every instance
  pub sub_snaps: Vec<(usize, usize, Vec<Vec<bool>>, Vec<Vec<bool>>)>,
  /// (recorder, trigger, fired): the recorder's callback unsubscribes its own root
  pub self_unsubs: Vec<(u32, crate::s_run::Trig, bool)>,
  pub subscribe_returned: Vec<u32>,
  /// inner recorders (of window/group_by inner observables) the driver has unsubscribed
  pub inner_unsubscribed: Vec<u32>,
  /// (recorder to subscribe, fired): subscribed from inside tap's first next side effect
  pub nest_from_tap: Option<(u32, bool)>,
  pub nest_pipeline: Option<Node>,
  pub root_of_rec: Vec<(u32, usize)>,
}

impl RefWorld {
  pub fn new(kinds: Vec<SrcKind>) -> RefWorld {
    RefWorld {
      srcs: kinds.into_iter().map(|k| RSrc { kind: k, insts: vec![], history: vec![], terminal: None }).collect(),
      nodes: vec![],
      out: vec![],
      all: vec![],
      tap_log: vec![],
      roots: vec![],
      hit_subscription_cap: false,
      nests: vec![],
      feeds: vec![],
      sub_snaps: vec![],
      self_unsubs: vec![],
      subscribe_returned: vec![],
      inner_unsubscribed: vec![],
      nest_from_tap: None,
      nest_pipeline: None,
      root_of_rec: vec![],
    }
  }

  fn new_node(&mut self, kind: Kind, parent: Option<(usize, usize)>, n_inputs: usize) -> usize {
    self.nodes.push(RNode {
      kind,
      parent,
      inputs: vec![None; n_inputs],
      closed: vec![false; n_inputs],
      done: false,
      cnt: 0,
      acc: None,
      buf: vec![],
      flag: false,
      queues: (0..n_inputs).map(|_| VecDeque::new()).collect(),
      latest: vec![None; n_inputs],
      completed: vec![false; n_inputs],
      winner: None,
      attempts: 1,
      next_extra: 0,
      inner_ord: 0,
      cur_inner: 0,
      keys: vec![],
      outer_done: false,
    });
    self.nodes.len() - 1
  }

  /// subscribe a recorder `rec` to the pipeline `p`
  pub fn subscribe_root(&mut self, p: &Node, rec: u32) -> usize {
    let root = self.new_node(Kind::Root(rec), None, 1);
    self.roots.push(root);
    self.root_of_rec.push((rec, root));
    self.attach(root, 0, p);
    self.subscribe_returned.push(rec);
    root
  }
  pub fn unsubscribe_root(&mut self, root: usize) {
    self.cancel(root);
  }
  pub fn root_done(&self, root: usize) -> bool {
    self.nodes[root].done
  }

  /// instantiate pipeline `p` as input `slot` of `parent` and subscribe it
  fn attach(&mut self, parent: usize, slot: usize, p: &Node) {
    match p {
      Node::Src(i) => {
        let inst = self.srcs[*i].insts.len();
        let id = self.new_node(Kind::Src(*i, inst), Some((parent, slot)), 0);
        self.nodes[parent].inputs[slot] = Some(id);
        self.srcs[*i].insts.push(RInst { node: id, alive: true, lazy: false, emitted: 0 });
        let alive: Vec<Vec<bool>> = self.srcs.iter().map(|s| s.insts.iter().map(|x| x.alive).collect()).collect();
        let lazy: Vec<Vec<bool>> = self.srcs.iter().map(|s| s.insts.iter().map(|x| x.lazy).collect()).collect();
        self.sub_snaps.push((*i, inst, alive, lazy));
        self.play_source(*i, inst);
      }
      Node::Op(on) => {
        let n_in = 1 + on.extra.len();
        let id = self.new_node(Kind::Op(p.clone()), Some((parent, slot)), n_in.max(1));
        self.nodes[parent].inputs[slot] = Some(id);
        self.on_subscribe(id);
      }
    }
  }

  fn attach_script(&mut self, parent: usize, slot: usize, script: Vec<Ev>) {
    let id = self.new_node(Kind::Script(script.clone()), Some((parent, slot)), 0);
    self.nodes[parent].inputs[slot] = Some(id);
    for ev in script {
      if self.nodes[id].done {
        break;
      }
      let t = ev.is_terminal();
      self.emit_raw(id, ev);
      if t {
        self.nodes[id].done = true;
      }
    }
  }

  fn play_source(&mut self, i: usize, inst: usize) {
    let kind = self.srcs[i].kind.clone();
    let node = self.srcs[i].insts[inst].node;
    match kind {
      SrcKind::Hot | SrcKind::Subject => {}
      SrcKind::BehaviorSubject | SrcKind::ReplaySubject => {
        // the hand-over: current value / whole history, then the stored terminal if any
        let hist: Vec<D> = if kind == SrcKind::ReplaySubject {
          self.srcs[i].history.clone()
        } else if self.srcs[i].terminal.is_none() {
          vec![self.srcs[i].history.last().cloned().unwrap_or(D::I(0))]
        } else {
          vec![]
        };
        for d in hist {
          if !self.srcs[i].insts[inst].alive {
            break;
          }
          self.emit_raw(node, Ev::N(d));
        }
        if let Some(t) = self.srcs[i].terminal.clone() {
          self.emit_raw(node, t);
          self.srcs[i].insts[inst].alive = false;
        }
      }
      SrcKind::Endless(v) => {
        let mut n = 0;
        while self.srcs[i].insts[inst].alive && n < ENDLESS_CAP {
          self.srcs[i].insts[inst].emitted += 1;
          self.emit_raw(node, Ev::n(v));
          n += 1;
        }
      }
      SrcKind::Lib(l) => {
        for ev in l.script() {
          if !self.srcs[i].insts[inst].alive {
            break;
          }
          let t = ev.is_terminal();
          self.srcs[i].insts[inst].emitted += 1;
          self.emit_raw(node, ev);
          if t {
            self.srcs[i].insts[inst].alive = false;
          }
        }
      }
      SrcKind::Cold { scripts, polite } => {
        if inst >= MAX_SUBSCRIPTIONS_PER_SOURCE {
          self.hit_subscription_cap = true;
          self.emit_raw(node, Ev::C);
          self.srcs[i].insts[inst].alive = false;
          return;
        }
        let script = scripts[inst.min(scripts.len() - 1)].clone();
        for ev in script {
          if polite && !self.srcs[i].insts[inst].alive {
            break;
          }
          let t = ev.is_terminal();
          self.srcs[i].insts[inst].emitted += 1;
          self.emit_raw(node, ev);
          if t {
            // the source's own observer is closed by its terminal
            self.srcs[i].insts[inst].alive = false;
          }
        }
      }
    }
  }

  /// driver: push one event into hot source i
  pub fn hot_emit(&mut self, i: usize, ev: Ev) {
    if matches!(self.srcs[i].kind, SrcKind::BehaviorSubject | SrcKind::ReplaySubject) {
      match &ev {
        Ev::N(d) => self.srcs[i].history.push(d.clone()),
        t => self.srcs[i].terminal = Some(t.clone()),
      }
    }
    let n = self.srcs[i].insts.len();
    for k in 0..n {
      let node = self.srcs[i].insts[k].node;
      let t = ev.is_terminal();
      // a hot (rude) source delivers to every observer it was ever handed;
      // closed observers drop it
      self.emit_raw(node, ev.clone());
      if t {
        self.srcs[i].insts[k].alive = false;
      }
      if self.srcs[i].insts[k].lazy {
        // the loser's attempt is what tells it that it lost
        self.srcs[i].insts[k].lazy = false;
      }
    }
  }

  /// emit from a source/script node without the node-level terminal bookkeeping
  fn emit_raw(&mut self, id: usize, ev: Ev) {
    if self.nodes[id].done {
      return;
    }
    let t = ev.is_terminal();
    if let Some((p, slot)) = self.nodes[id].parent {
      self.deliver(p, slot, ev);
    }
    if t {
      // whatever this source instance sends after its own terminal is ignored
      // (its parent may have re-used the input slot for another input by now)
      self.nodes[id].done = true;
    }
  }

  fn emit(&mut self, id: usize, ev: Ev) {
    if self.nodes[id].done {
      return;
    }
    let t = ev.is_terminal();
    if t {
      // a node that terminates cancels all its live inputs
      self.nodes[id].done = true;
      let ins: Vec<usize> = self.nodes[id].inputs.iter().flatten().cloned().collect();
      for c in ins {
        self.cancel(c);
      }
    }
    if let Some((p, slot)) = self.nodes[id].parent {
      self.deliver(p, slot, ev);
    }
  }

  fn cancel(&mut self, id: usize) {
    if let Kind::Src(i, inst) = self.nodes[id].kind {
      self.srcs[i].insts[inst].alive = false;
    }
    if self.nodes[id].done {
      return;
    }
    self.nodes[id].done = true;
    let ins: Vec<usize> = self.nodes[id].inputs.iter().flatten().cloned().collect();
    for c in ins {
      self.cancel(c);
    }
  }
  fn cancel_input(&mut self, id: usize, slot: usize) {
    self.nodes[id].closed[slot] = true;
    if let Some(c) = self.nodes[id].inputs[slot] {
      self.cancel(c);
    }
  }
  fn cancel_input_lazily(&mut self, id: usize, slot: usize) {
    self.cancel_input(id, slot);
    if let Some(c) = self.nodes[id].inputs[slot] {
      if let Kind::Src(i, inst) = self.nodes[c].kind {
        self.srcs[i].insts[inst].lazy = true;
      }
    }
  }

  fn root_rec(&self, id: usize) -> Option<u32> {
    let (p, _) = self.nodes[id].parent?;
    if let Kind::Root(r) = self.nodes[p].kind {
      Some(r)
    } else {
      None
    }
  }

  fn op_of(&self, id: usize) -> (Op, Node, Vec<Node>) {
    if let Kind::Op(Node::Op(on)) = &self.nodes[id].kind {
      (on.op.clone(), on.input.clone(), on.extra.clone())
    } else {
      unreachable!()
    }
  }

  fn on_subscribe(&mut self, id: usize) {
    let (op, input, extra) = self.op_of(id);
    match op {
      Op::Take(0) => {
        self.emit(id, Ev::C);
      }
      Op::ReadySetGo(script) => {
        // subscribe first, then run the action (which emits into the hot input)
        self.attach(id, 0, &input);
        if let Node::Src(i) = input {
          for ev in script {
            self.hot_emit(i, ev);
          }
        }
      }
      Op::StartWith(v) => {
        for x in v {
          self.emit(id, Ev::n(x));
        }
        if !self.nodes[id].done {
          self.attach(id, 0, &input);
        }
      }
      Op::Merge | Op::Zip | Op::CombineLatest | Op::Amb | Op::SequenceEqual | Op::SequenceEqualPrefix => {
        self.attach(id, 0, &input);
        for (k, e) in extra.iter().enumerate() {
          if self.nodes[id].done {
            break;
          }
          self.attach(id, k + 1, e);
        }
      }
      Op::TakeUntil | Op::SkipUntil | Op::Sample => {
        // trigger first, then the source
        self.attach(id, 1, &extra[0]);
        if !self.nodes[id].done {
          self.attach(id, 0, &input);
        }
      }
      _ => {
        self.attach(id, 0, &input);
      }
    }
  }

  fn record(&mut self, rec: u32, ev: Ev) {
    if self.inner_unsubscribed.contains(&rec) {
      return;
    }
    self.out.push((rec, ev.clone()));
    self.all.push((rec, ev.clone()));
    if rec % 100 == 0 && !self.nests.is_empty() {
      let items = self.all.iter().filter(|e| e.0 == rec && !e.1.is_terminal()).count();
      let mut fire = vec![];
      for n in self.nests.iter_mut() {
        if n.0 == rec && !n.3 && n.1.matches(&ev, items) {
          n.3 = true;
          fire.push(n.2);
        }
      }
      if let Some(p) = self.nest_pipeline.clone() {
        for r2 in fire {
          self.subscribe_root(&p, r2);
        }
      }
    }
    if rec % 100 == 0 && !self.feeds.is_empty() {
      let items = self.all.iter().filter(|e| e.0 == rec && !e.1.is_terminal()).count();
      let mut fire = vec![];
      for f in self.feeds.iter_mut() {
        if f.0 == rec && !f.4 && f.1.matches(&ev, items) {
          f.4 = true;
          fire.push((f.2, f.3.clone()));
        }
      }
      for (src, e) in fire {
        self.hot_emit(src, e);
      }
    }
    if rec % 100 == 0 && !self.self_unsubs.is_empty() {
      let items = self.all.iter().filter(|e| e.0 == rec && !e.1.is_terminal()).count();
      let mut hit = false;
      for f in self.self_unsubs.iter_mut() {
        if f.0 == rec && !f.2 && f.1.matches(&ev, items) {
          f.2 = true;
          hit = true;
        }
      }
      if hit {
        // only once subscribe() has returned does the subscriber hold its Subscription
        let root = self.root_of_rec.iter().find(|x| x.0 == rec).map(|x| x.1);
        if let (Some(root), true) = (root, self.subscribe_returned.contains(&rec)) {
          self.unsubscribe_root(root);
        }
      }
    }
  }

  fn deliver(&mut self, id: usize, slot: usize, ev: Ev) {
    if self.nodes[id].done || self.nodes[id].closed[slot] {
      return;
    }
    if ev.is_terminal() {
      self.nodes[id].closed[slot] = true;
    }
    if let Kind::Root(rec) = self.nodes[id].kind {
      if ev.is_terminal() {
        self.nodes[id].done = true;
      }
      self.record(rec, ev);
      return;
    }
    let (op, input, extra) = self.op_of(id);
    use Ev::*;
    match op {
      // ------------------------------------------------ item-wise mirrors
      Op::Map(f) => match ev {
        N(x) => self.emit(id, N(f.apply(&x))),
        o => self.emit(id, o),
      },
      Op::Filter(p) => match ev {
        N(x) => {
          if p.test(&x) {
            self.emit(id, N(x))
          }
        }
        o => self.emit(id, o),
      },
      Op::Tap => {
        self.tap_log.push(ev.clone());
        if let (Ev::N(_), Some((rec, false))) = (&ev, self.nest_from_tap) {
          self.nest_from_tap = Some((rec, true));
          if let Some(p) = self.nest_pipeline.clone() {
            self.subscribe_root(&p, rec);
          }
        }
        self.emit(id, ev)
      }
      Op::MapToAny | Op::ObserveOnDefault | Op::SubscribeOnDefault | Op::MatDemat | Op::Timestamp | Op::RefCount | Op::ReplayConn | Op::Defer
      | Op::WindowFlat(_) | Op::GroupByParityFlat => self.emit(id, ev),
      Op::GroupByParityFlatResume => match ev {
        N(x) => {
          let par = D::I(x.i().rem_euclid(2));
          if !self.nodes[id].buf.contains(&par) {
            self.nodes[id].buf.push(par);
          }
          self.emit(id, N(x))
        }
        E(e) => {
          // every open group gets the error first and answers with its fallback item
          for _ in 0..self.nodes[id].buf.len() {
            self.emit(id, N(D::I(9)));
          }
          self.emit(id, E(e))
        }
        o => self.emit(id, o),
      },
      Op::DematInBand(c, e) => match ev {
        // emit() of a terminal cancels the input
        N(D::I(k)) if k == c => self.emit(id, C),
        N(D::I(k)) if k == e => self.emit(id, E(40 + k)),
        o => self.emit(id, o),
      },
      Op::TimeInterval => match ev {
        N(_) => self.emit(id, N(D::U)),
        o => self.emit(id, o),
      },
      Op::IgnoreElements => match ev {
        N(_) => {}
        o => self.emit(id, o),
      },
      Op::DistinctUntilChanged => match ev {
        N(x) => {
          if self.nodes[id].acc.as_ref() != Some(&x) {
            self.nodes[id].acc = Some(x.clone());
            self.emit(id, N(x))
          }
        }
        o => self.emit(id, o),
      },
      Op::Scan => match ev {
        N(x) => {
          let v = match &self.nodes[id].acc {
            None => x,
            Some(a) => D::I(a.i() + x.i()),
          };
          self.nodes[id].acc = Some(v.clone());
          self.emit(id, N(v))
        }
        o => self.emit(id, o),
      },
      Op::Skip(k) => match ev {
        N(x) => {
          self.nodes[id].cnt += 1;
          if self.nodes[id].cnt > k {
            self.emit(id, N(x))
          }
        }
        o => self.emit(id, o),
      },
      Op::SkipLast(k) => match ev {
        N(x) => {
          self.nodes[id].buf.push(x);
          if self.nodes[id].buf.len() > k {
            let y = self.nodes[id].buf.remove(0);
            self.emit(id, N(y))
          }
        }
        o => self.emit(id, o),
      },
      Op::SkipWhile(p) => match ev {
        N(x) => {
          if !self.nodes[id].flag && !p.test(&x) {
            self.nodes[id].flag = true;
          }
          if self.nodes[id].flag {
            self.emit(id, N(x))
          }
        }
        o => self.emit(id, o),
      },
      Op::StartWith(_) | Op::ReadySetGo(_) => self.emit(id, ev),
      // ------------------------------------------------ early termination
      Op::Take(k) => match ev {
        N(x) => {
          self.nodes[id].cnt += 1;
          let last = self.nodes[id].cnt >= k;
          self.emit(id, N(x));
          if last {
            self.emit(id, C)
          }
        }
        o => self.emit(id, o),
      },
      Op::First => match ev {
        N(x) => {
          self.emit(id, N(x));
          self.emit(id, C)
        }
        o => self.emit(id, o),
      },
      Op::TakeWhile(p) => match ev {
        N(x) => {
          if p.test(&x) {
            self.emit(id, N(x))
          } else {
            self.emit(id, C)
          }
        }
        o => self.emit(id, o),
      },
      Op::ElementAt(k) => match ev {
        N(x) => {
          self.nodes[id].cnt += 1;
          if k >= 1 && self.nodes[id].cnt == k {
            self.emit(id, N(x));
            self.emit(id, C)
          }
        }
        o => self.emit(id, o),
      },
      Op::Contains(k) => match ev {
        N(x) => {
          if x == D::I(k) {
            self.emit(id, N(D::B(true)));
            self.emit(id, C)
          }
        }
        // pinned by the asserting test contains::test::error: an error means "not found"
        E(_) | C => {
          self.emit(id, N(D::B(false)));
          self.emit(id, C)
        }
      },
      Op::All(p) => match ev {
        N(x) => {
          if !p.test(&x) {
            self.emit(id, N(D::B(false)));
            self.emit(id, C)
          }
        }
        C => {
          self.emit(id, N(D::B(true)));
          self.emit(id, C)
        }
        o => self.emit(id, o),
      },
      // ------------------------------------------------ on completion
      Op::TakeLast(k) => match ev {
        N(x) => {
          self.nodes[id].buf.push(x);
          if self.nodes[id].buf.len() > k {
            self.nodes[id].buf.remove(0);
          }
        }
        C => {
          let b = std::mem::take(&mut self.nodes[id].buf);
          for x in b {
            self.emit(id, N(x));
          }
          self.emit(id, C)
        }
        o => self.emit(id, o),
      },
      Op::Last => match ev {
        N(x) => self.nodes[id].acc = Some(x),
        C => {
          if let Some(x) = self.nodes[id].acc.take() {
            self.emit(id, N(x));
          }
          self.emit(id, C)
        }
        o => self.emit(id, o),
      },
      Op::Reduce | Op::Sum | Op::Min | Op::Max => match ev {
        N(x) => {
          let v = match (&self.nodes[id].acc, &op) {
            (None, _) => x,
            (Some(a), Op::Min) => {
              if x < *a {
                x
              } else {
                a.clone()
              }
            }
            (Some(a), Op::Max) => {
              if x > *a {
                x
              } else {
                a.clone()
              }
            }
            (Some(a), _) => D::I(a.i() + x.i()),
          };
          self.nodes[id].acc = Some(v);
        }
        C => {
          if let Some(x) = self.nodes[id].acc.take() {
            self.emit(id, N(x));
          }
          self.emit(id, C)
        }
        o => self.emit(id, o),
      },
      Op::Count => match ev {
        N(_) => self.nodes[id].cnt += 1,
        C => {
          let c = self.nodes[id].cnt as i64;
          self.emit(id, N(D::I(c)));
          self.emit(id, C)
        }
        o => self.emit(id, o),
      },
      Op::SumAndCount => match ev {
        N(x) => {
          self.nodes[id].cnt += 1;
          let v = match &self.nodes[id].acc {
            None => x,
            Some(a) => D::I(a.i() + x.i()),
          };
          self.nodes[id].acc = Some(v);
        }
        C => {
          if let Some(x) = self.nodes[id].acc.take() {
            let c = self.nodes[id].cnt;
            self.emit(id, N(D::SC(Box::new(x), c)));
          }
          self.emit(id, C)
        }
        o => self.emit(id, o),
      },
      Op::DefaultIfEmpty(d) => match ev {
        N(x) => {
          self.nodes[id].flag = true;
          self.emit(id, N(x))
        }
        C => {
          if !self.nodes[id].flag {
            self.emit(id, N(D::I(d)));
          }
          self.emit(id, C)
        }
        o => self.emit(id, o),
      },
      Op::Buffer(k) => match ev {
        N(x) => {
          self.nodes[id].buf.push(x);
          if self.nodes[id].buf.len() >= k.max(1) {
            let b = std::mem::take(&mut self.nodes[id].buf);
            self.emit(id, N(D::L(b)))
          }
        }
        C => {
          let b = std::mem::take(&mut self.nodes[id].buf);
          if !b.is_empty() {
            self.emit(id, N(D::L(b)));
          }
          self.emit(id, C)
        }
        o => self.emit(id, o),
      },
      Op::Materialize => match ev {
        N(x) => self.emit(id, N(D::MNext(Box::new(x)))),
        E(k) => {
          self.emit(id, N(D::MErr(k)));
          self.emit(id, C)
        }
        C => {
          self.emit(id, N(D::MComplete));
          self.emit(id, C)
        }
      },
      // ------------------------------------------------ higher order (direct)
      Op::Window(k) | Op::WindowDeferred(k) => {
        let base = self.root_rec(id).unwrap_or(0);
        match ev {
          N(x) => {
            if self.nodes[id].cur_inner == 0 {
              self.nodes[id].inner_ord += 1;
              self.nodes[id].cur_inner = self.nodes[id].inner_ord;
              self.nodes[id].cnt = 0;
              let o = self.nodes[id].cur_inner;
              self.emit(id, N(D::Inner(o)));
            }
            let cur = self.nodes[id].cur_inner;
            if !self.nodes[id].done {
              self.record(base + cur, N(x));
              self.nodes[id].cnt += 1;
              if self.nodes[id].cnt >= k.max(1) {
                self.record(base + cur, C);
                self.nodes[id].cur_inner = 0;
              }
            }
          }
          t => {
            let cur = self.nodes[id].cur_inner;
            if cur != 0 {
              self.record(base + cur, t.clone());
            }
            self.emit(id, t)
          }
        }
      }
      Op::GroupByParity | Op::GroupByParityDeferred => {
        let base = self.root_rec(id).unwrap_or(0);
        match ev {
          N(x) => {
            let key = x.i().rem_euclid(2);
            let ord = match self.nodes[id].keys.iter().find(|k| k.0 == key) {
              Some(k) => k.1,
              None => {
                self.nodes[id].inner_ord += 1;
                let o = self.nodes[id].inner_ord;
                self.nodes[id].keys.push((key, o));
                self.emit(id, N(D::Inner(o)));
                o
              }
            };
            if !self.nodes[id].done {
              self.record(base + ord, N(x));
            }
          }
          t => {
            let ks = self.nodes[id].keys.clone();
            for (_, o) in ks {
              self.record(base + o, t.clone());
            }
            self.emit(id, t)
          }
        }
      }
      // ------------------------------------------------ recovery
      Op::Retry(k) => match ev {
        E(e) => {
          if k == 0 || self.nodes[id].attempts < k {
            self.nodes[id].attempts += 1;
            self.cancel_input(id, 0);
            self.nodes[id].closed[0] = false;
            self.attach(id, 0, &input);
          } else {
            self.emit(id, E(e))
          }
        }
        o => self.emit(id, o),
      },
      Op::RetryWhen(p) => match ev {
        E(e) => {
          if p.test(e) {
            self.cancel_input(id, 0);
            self.nodes[id].closed[0] = false;
            self.attach(id, 0, &input);
          } else {
            self.emit(id, E(e))
          }
        }
        o => self.emit(id, o),
      },
      Op::OnErrorResumeNext(r) => match ev {
        E(e) => {
          if self.nodes[id].flag {
            // error of the resumed observable is final
            self.emit(id, E(e))
          } else {
            self.nodes[id].flag = true;
            self.cancel_input(id, 0);
            self.nodes[id].closed[0] = false;
            let script = match r {
              Resume::Just9 => vec![Ev::n(9), C],
              Resume::Empty => vec![C],
              Resume::OtherErr => vec![E(e + 100)],
              Resume::SameErr => vec![E(e)],
              Resume::Cold89 => vec![Ev::n(8), Ev::n(9), C],
            };
            self.attach_script(id, 0, script);
          }
        }
        o => self.emit(id, o),
      },
      // ------------------------------------------------ several inputs
      Op::Merge => match ev {
        N(x) => self.emit(id, N(x)),
        E(e) => self.emit(id, E(e)),
        C => {
          self.nodes[id].completed[slot] = true;
          if self.nodes[id].completed.iter().all(|c| *c) {
            self.emit(id, C)
          }
        }
      },
      Op::Concat => match ev {
        N(x) => self.emit(id, N(x)),
        E(e) => self.emit(id, E(e)),
        C => {
          let k = self.nodes[id].next_extra;
          if k < extra.len() {
            self.nodes[id].next_extra += 1;
            self.nodes[id].closed[0] = false;
            self.attach(id, 0, &extra[k]);
          } else {
            self.emit(id, C)
          }
        }
      },
      Op::Zip => match ev {
        N(x) => {
          self.nodes[id].queues[slot].push_back(x);
          while !self.nodes[id].done && self.nodes[id].queues.iter().all(|q| !q.is_empty()) {
            let heads: Vec<D> =
              self.nodes[id].queues.iter_mut().map(|q| q.pop_front().unwrap()).collect();
            self.emit(id, N(D::L(heads)));
          }
        }
        E(e) => self.emit(id, E(e)),
        C => {
          // pinned convention (DESIGN §6): completes when all inputs completed
          self.nodes[id].completed[slot] = true;
          if self.nodes[id].completed.iter().all(|c| *c) {
            self.emit(id, C)
          }
        }
      },
      Op::CombineLatest => match ev {
        N(x) => {
          self.nodes[id].latest[slot] = Some(x);
          if self.nodes[id].latest.iter().all(|l| l.is_some()) {
            let v: Vec<D> = self.nodes[id].latest.iter().map(|l| l.clone().unwrap()).collect();
            self.emit(id, N(D::L(v)))
          }
        }
        E(e) => self.emit(id, E(e)),
        C => {
          self.nodes[id].completed[slot] = true;
          if self.nodes[id].completed.iter().all(|c| *c) {
            self.emit(id, C)
          }
        }
      },
      Op::Amb => {
        // the first input to deliver any event wins; a loser is cancelled when
        // it next tries to emit (that event is not delivered) - at the latest
      if self.nodes[id].winner.is_none() {
          self.nodes[id].winner = Some(slot);
        }
        if self.nodes[id].winner == Some(slot) {
          self.emit(id, ev)
        } else {
          self.cancel_input(id, slot);
        }
      }
      Op::TakeUntil => {
        if slot == 1 {
          if let N(_) = ev {
            self.emit(id, C)
          }
        } else {
          self.emit(id, ev)
        }
      }
      Op::SkipUntil => {
        if slot == 1 {
          if let N(_) = ev {
            self.nodes[id].flag = true;
            // the trigger has done its job
            self.cancel_input(id, 1);
          }
        } else {
          match ev {
            N(x) => {
              if self.nodes[id].flag {
                self.emit(id, N(x))
              }
            }
            o => self.emit(id, o),
          }
        }
      }
      Op::Sample => {
        if slot == 1 {
          if let N(_) = ev {
            if let Some(x) = self.nodes[id].acc.take() {
              self.emit(id, N(x))
            }
          }
        } else {
          match ev {
            N(x) => self.nodes[id].acc = Some(x),
            o => self.emit(id, o),
          }
        }
      }
      Op::SequenceEqual => {
        let verdict = |me: &mut RefWorld, b: bool| {
          // decided (outer_done doubles as the flag): no item or completion that arrives
          // while the verdict is being delivered changes it; like take's last item, the
          // verdict goes out before the inputs are cancelled, so an error arriving during
          // its delivery still ends the stream
          me.nodes[id].outer_done = true;
          me.emit(id, N(D::B(b)));
          me.emit(id, C);
        };
        if self.nodes[id].outer_done && !matches!(ev, E(_)) {
          return;
        }
        match ev {
          N(x) => {
            self.nodes[id].queues[slot].push_back(x);
            // an item beyond the end of an input that already completed
            let beyond = (0..self.nodes[id].queues.len())
              .any(|j| self.nodes[id].completed[j] && self.nodes[id].queues[j].is_empty());
            if beyond {
              verdict(self, false);
              return;
            }
            while !self.nodes[id].done && self.nodes[id].queues.iter().all(|q| !q.is_empty()) {
              let heads: Vec<D> =
                self.nodes[id].queues.iter_mut().map(|q| q.pop_front().unwrap()).collect();
              if !heads.iter().all(|h| *h == heads[0]) {
                verdict(self, false);
              }
            }
          }
          E(e) => self.emit(id, E(e)),
          C => {
            self.nodes[id].completed[slot] = true;
            let mine_empty = self.nodes[id].queues[slot].is_empty();
            let other_has = self.nodes[id].queues.iter().enumerate().any(|(j, q)| j != slot && !q.is_empty());
            if mine_empty && other_has {
              verdict(self, false);
            } else if self.nodes[id].completed.iter().all(|c| *c) {
              let all_empty = self.nodes[id].queues.iter().all(|q| q.is_empty());
              verdict(self, all_empty);
            }
          }
        }
      }
      Op::SequenceEqualPrefix => match ev {
        // as implemented: zip, compare each tuple, `true` when zip completes
        N(x) => {
          self.nodes[id].queues[slot].push_back(x);
          while !self.nodes[id].done && self.nodes[id].queues.iter().all(|q| !q.is_empty()) {
            let heads: Vec<D> =
              self.nodes[id].queues.iter_mut().map(|q| q.pop_front().unwrap()).collect();
            if !heads.iter().all(|h| *h == heads[0]) {
              self.emit(id, N(D::B(false)));
              self.emit(id, C);
            }
          }
        }
        E(e) => self.emit(id, E(e)),
        C => {
          self.nodes[id].completed[slot] = true;
          if self.nodes[id].completed.iter().all(|c| *c) {
            self.emit(id, N(D::B(true)));
            self.emit(id, C);
          }
        }
      },
      Op::SwitchOnNext => {
        // no functional reference (DESIGN §6): never compared
        let _ = (&input, &extra);
      }
      Op::FlatMap(kind) => {
        if slot == 0 {
          match ev {
            N(x) => {
              let s = self.nodes[id].inputs.len();
              self.nodes[id].inputs.push(None);
              self.nodes[id].closed.push(false);
              self.nodes[id].completed.push(false);
              self.nodes[id].queues.push(VecDeque::new());
              self.nodes[id].latest.push(None);
              match kind {
                Inner::Just10 => self.attach_script(id, s, vec![N(D::I(x.i() * 10)), C]),
                Inner::Empty => self.attach_script(id, s, vec![C]),
                Inner::Cold2 => self.attach_script(id, s, vec![N(x.clone()), N(D::I(x.i() + 100)), C]),
                Inner::Err => self.attach_script(id, s, vec![E(40 + x.i())]),
                Inner::Hot { base, n } => {
                  let i = base + (x.i().rem_euclid(n as i64) as usize);
                  self.attach(id, s, &Node::Src(i))
                }
              }
            }
            E(e) => self.emit(id, E(e)),
            C => {
              self.nodes[id].outer_done = true;
              self.flat_map_maybe_complete(id);
            }
          }
        } else {
          match ev {
            N(x) => self.emit(id, N(x)),
            E(e) => self.emit(id, E(e)),
            C => {
              self.nodes[id].completed[slot] = true;
              self.flat_map_maybe_complete(id);
            }
          }
        }
      }
    }
  }

  fn flat_map_maybe_complete(&mut self, id: usize) {
    let n = &self.nodes[id];
    if n.outer_done && (1..n.inputs.len()).all(|s| n.completed[s]) {
      self.emit(id, Ev::C)
    }
  }
}
