//! Findings, known-findings matching, evidence files, exit status.
use crate::json::{self, arr_s, obj, s, J};
use std::collections::BTreeMap;
use std::time::Instant;

pub fn verif_dir() -> String {
  std::env::var("VERIF_DIR").unwrap_or_else(|_| "/verif".to_string())
}

#[derive(Clone, Debug)]
pub struct Finding {
  /// stable identification of *what fails*: locus/class[/trigger]
  pub key: String,
  pub detail: String,
  /// JSON body of the replay artefact
  pub replay: J,
  pub count: u64,
}

pub struct Report {
  pub property: String,
  pub tier: String,
  pub seed: i64,
  pub engine: String,
  pub states: u64,
  pub transitions: u64,
  pub traces: u64,
  pub exhaustive: bool,
  pub samples: Vec<J>,
  pub extra: Vec<(String, J)>,
  pub assumptions: Vec<String>,
  pub findings: Vec<Finding>,
  pub machinery: Vec<String>,
  pub vacuity: Vec<String>,
  pub t0: Instant,
}

impl Report {
  pub fn new(property: &str, tier: &str, engine: &str) -> Report {
    let seed = std::env::var("VERIF_SEED").ok().and_then(|x| x.parse::<i64>().ok()).unwrap_or(0);
    Report {
      property: property.to_string(),
      tier: tier.to_string(),
      seed,
      engine: engine.to_string(),
      states: 0,
      transitions: 0,
      traces: 0,
      exhaustive: true,
      samples: vec![],
      extra: vec![],
      assumptions: vec![],
      findings: vec![],
      machinery: vec![],
      vacuity: vec![],
      t0: Instant::now(),
    }
    .clear_old_replays()
  }
  fn clear_old_replays(self) -> Report {
    let dir = format!("{}/replays", verif_dir());
    if let Ok(rd) = std::fs::read_dir(&dir) {
      for e in rd.flatten() {
        let n = e.file_name().to_string_lossy().to_string();
        if n.starts_with(&format!("{}-", self.property)) && n.ends_with(".json") {
          let _ = std::fs::remove_file(e.path());
        }
      }
    }
    self
  }
  pub fn add_finding(&mut self, f: Finding) {
    if let Some(g) = self.findings.iter_mut().find(|g| g.key == f.key) {
      g.count += f.count;
    } else {
      self.findings.push(f);
    }
  }
}

#[derive(Clone, Debug)]
pub struct Known {
  pub status: String,
  pub property: String,
  pub key: String,
  pub what: String,
}

pub fn load_known() -> Vec<Known> {
  let p = format!("{}/known_findings.json", verif_dir());
  let t = match std::fs::read_to_string(&p) {
    Ok(t) => t,
    Err(_) => return vec![],
  };
  let j = match json::parse(&t) {
    Ok(j) => j,
    Err(e) => {
      eprintln!("MACHINERY-ERROR: cannot parse {}: {}", p, e);
      std::process::exit(2);
    }
  };
  let mut out = vec![];
  if let Some(a) = j.get("findings").and_then(|x| x.as_arr()) {
    for e in a {
      let g = |k: &str| e.get(k).and_then(|x| x.as_str()).unwrap_or("").to_string();
      out.push(Known { status: g("status"), property: g("property"), key: g("key"), what: g("what") });
    }
  }
  out
}

/// Writes evidence, prints KNOWN-FINDING / VIOLATION lines, returns exit code.
pub fn finish(mut r: Report) -> i32 {
  // replay of an engine-S finding (`run.sh replay <file>`): the enumeration that found it is
  // deterministic, so it is re-run and only the finding with the recorded key is looked for;
  // nothing is written (neither evidence nor replay artefacts)
  if let Ok(key) = std::env::var("VERIF_REPLAY_KEY") {
    return match r.findings.iter().find(|f| f.key == key) {
      Some(f) => {
        println!("VIOLATION-REPLAYED {}: {} ({} occurrence(s))", f.key, f.detail, f.count);
        1
      }
      None => {
        println!("not reproduced on the current tree: {} ({} other finding key(s) in this run)", key, r.findings.len());
        0
      }
    };
  }
  let known = load_known();
  let dir = verif_dir();
  let _ = std::fs::create_dir_all(format!("{}/evidence", dir));
  let _ = std::fs::create_dir_all(format!("{}/replays", dir));
  let mut violations = 0;
  let mut known_hit: BTreeMap<String, u64> = BTreeMap::new();
  let mut viol_lines = vec![];
  r.findings.sort_by(|a, b| a.key.cmp(&b.key));
  for f in &r.findings {
    let k = known
      .iter()
      .find(|k| k.status == "known" && k.property == r.property && k.key == f.key);
    if let Some(k) = k {
      *known_hit.entry(f.key.clone()).or_default() += f.count;
      println!("KNOWN-FINDING: property={} {} — {}", r.property, f.key, k.what);
    } else {
      violations += 1;
      let fname = format!(
        "{}/replays/{}-{}.json",
        dir,
        r.property,
        f.key.replace(|c: char| !c.is_ascii_alphanumeric() && c != '-' && c != '_', "_")
      );
      let body = obj(vec![
        ("property", s(r.property.clone())),
        ("key", s(f.key.clone())),
        ("detail", s(f.detail.clone())),
        ("occurrences", J::I(f.count as i64)),
        ("replay", f.replay.clone()),
      ]);
      let _ = std::fs::write(&fname, body.to_string());
      viol_lines.push(format!("VIOLATION property={} replay={}", r.property, fname));
      println!("  violation {} : {}", f.key, f.detail);
    }
  }
  let wall = r.t0.elapsed().as_secs_f64();
  let mut cov = vec![
    ("states".to_string(), J::I(r.states.max(1) as i64)),
    ("transitions".to_string(), J::I(r.transitions.max(1) as i64)),
    ("traces_validated_against_impl".to_string(), J::I(r.traces as i64)),
    ("samples".to_string(), J::A(if r.samples.is_empty() { vec![s("none")] } else { r.samples.clone() })),
    ("exhaustive".to_string(), J::B(r.exhaustive && r.machinery.is_empty())),
    ("engine".to_string(), s(r.engine.clone())),
    (
      "known_findings_hit".to_string(),
      J::O(known_hit.iter().map(|(k, v)| (k.clone(), J::I(*v as i64))).collect()),
    ),
    ("vacuity_flags".to_string(), arr_s(&r.vacuity)),
    ("machinery_errors".to_string(), arr_s(&r.machinery)),
  ];
  cov.extend(r.extra.clone());
  let ev = J::O(vec![
    ("property_id".to_string(), s(r.property.clone())),
    ("tier".to_string(), s(r.tier.clone())),
    ("seed".to_string(), J::I(r.seed)),
    ("level".to_string(), s("model_checking")),
    ("coverage".to_string(), J::O(cov)),
    ("assumptions".to_string(), arr_s(&r.assumptions)),
    ("wall_s".to_string(), J::F(wall)),
    ("violations".to_string(), J::I(violations)),
  ]);
  let evp = format!("{}/evidence/{}.json", dir, r.property);
  if let Err(e) = std::fs::write(&evp, ev.to_string()) {
    eprintln!("MACHINERY-ERROR: cannot write {}: {}", evp, e);
    return 2;
  }
  println!(
    "{} {} [{}]: states={} transitions={} executions={} exhaustive={} known={} violations={} wall={:.1}s",
    r.property,
    r.tier,
    r.engine,
    r.states,
    r.transitions,
    r.traces,
    r.exhaustive,
    known_hit.len(),
    violations,
    wall
  );
  for v in &r.vacuity {
    println!("  vacuity-flag: {}", v);
  }
  if !r.machinery.is_empty() {
    for m in &r.machinery {
      println!("MACHINERY-ERROR: {}", m);
    }
    return 2;
  }
  for l in &viol_lines {
    println!("{}", l);
  }
  if violations > 0 {
    1
  } else {
    0
  }
}
