//! C15 — worker threads started for a subscription exit when it ends.
//! C16 — time-based sources and operators follow the (virtual) clock.
use crate::tcommon::*;
use another_rxrust::prelude::*;
use another_rxrust::vstd::thread;
use rxverif_rt::exec::{ExecEnd, ThreadEnd};
use rxverif_rt::explore::{Body, Check, Verdict};
use std::sync::{Arc, Mutex};

fn nt() -> fn() -> schedulers::NewThreadScheduler<'static> {
  schedulers::new_thread_scheduler()
}

#[derive(Clone, Copy, Debug, PartialEq)]
pub enum Creator {
  Interval,
  Timer,
  HotObserveOn,
  ColdSubscribeOn,
  HotDebounce,
  HotTimeout,
  IntervalFlatMapObserveOn,
  ColdObserveOnTwice,
  ColdObserveOn,
  IntervalSampleInterval,
  IntervalPublish,
  IntervalDelay,
  /// interval shared through ref_count() / replay()
  IntervalRefCount,
  IntervalReplay,
  /// ... with a synchronous first item in front (start_with): a take(1) subscriber leaves while it is connecting
  StartWithIntervalRefCount,
  StartWithIntervalReplay,
  /// a callback running on the operator's worker emits into the hot source that feeds the operator
  HotDebounceFeedback,
  HotObserveOnFeedback,
  /// the subscription ends (25 ms) before the first period (40 ms) has elapsed
  TimerNotYetFired,
  IntervalNotYetFired,
  /// a source that ends at once, gated by a timer that has not fired yet: the timer's worker must go too
  JustTakeUntilTimer,
  JustSampleInterval,
  /// a sibling input ends the stream while the operator is still subscribing its inputs: the interval is
  /// subscribed with an observer that is already dead
  JustAmbInterval,
  IntervalTakeUntilJust,
  ErrorMergeInterval,
  /// the crate's own unbounded producers run on a scheduler's worker: they must stop pulling when the
  /// subscription has ended (a job that never returns keeps its worker for ever)
  EndlessFromIterSubscribeOn,
  EndlessRepeatSubscribeOn,
}

#[derive(Clone, Copy, Debug, PartialEq)]
pub enum Ending {
  /// the source completes / errors (hot: the driver does it at t=25ms)
  SourceComplete,
  SourceError,
  /// main unsubscribes at t = 25 ms
  Unsubscribe,
  Take1,
  First,
  TakeUntilTimer,
  AmbNever,
  Retry2,
  /// the other operators that end by themselves: contains(1), element_at(2), take_while(<1), all(<1)
  Contains,
  ElementAt,
  TakeWhile,
  All,
}

fn applicable(c: Creator, e: Ending) -> bool {
  use Creator::*;
  use Ending::*;
  match (c, e) {
    // interval/timer never fail; retry needs a failing attempt
    (Interval | Timer | IntervalFlatMapObserveOn | IntervalSampleInterval | IntervalPublish | IntervalDelay | IntervalRefCount | IntervalReplay | StartWithIntervalRefCount | StartWithIntervalReplay, SourceError | Retry2) => false,
    (Interval | IntervalFlatMapObserveOn | IntervalSampleInterval | IntervalPublish | IntervalDelay | IntervalRefCount | IntervalReplay | StartWithIntervalRefCount | StartWithIntervalReplay, SourceComplete) => false,
    (IntervalPublish, Take1 | First | TakeUntilTimer | AmbNever) => false,
    (EndlessFromIterSubscribeOn | EndlessRepeatSubscribeOn, e) if !matches!(e, Take1 | First | ElementAt | Contains) => false,
    (c, Contains | ElementAt | TakeWhile | All) => matches!(c, Interval | HotObserveOn | ColdObserveOn | ColdSubscribeOn | IntervalRefCount | EndlessFromIterSubscribeOn | EndlessRepeatSubscribeOn),
    (HotDebounceFeedback | HotObserveOnFeedback, Retry2 | TakeUntilTimer | AmbNever | First) => false,
    (TimerNotYetFired | IntervalNotYetFired, e) => e == Unsubscribe,
    (JustTakeUntilTimer | JustSampleInterval, e) => matches!(e, SourceComplete | Unsubscribe),
    (JustAmbInterval | IntervalTakeUntilJust, e) => e == SourceComplete,
    (ErrorMergeInterval, e) => e == SourceError,
    (EndlessFromIterSubscribeOn | EndlessRepeatSubscribeOn, e) => matches!(e, Take1 | First | ElementAt | Contains),
    _ => true,
  }
}

/// what the driver (main thread) has to do after subscribing
struct Built {
  o: Observable<'static, i64>,
  hot: Option<Hot<i64>>,
  connect: Option<Box<dyn FnOnce() -> Subscription<'static> + Send>>,
}

fn create(c: Creator, causes: &Causes) -> Built {
  use Emit::*;
  let hot = Hot::<i64>::new();
  let cold = || sync_source("a", vec![N(1), N(2), C], causes.clone());
  let failing_then_ok = {
    let n = Arc::new(Mutex::new(0));
    Observable::create(move |s: Observer<'static, i64>| {
      let k = {
        let mut g = n.lock().unwrap();
        *g += 1;
        *g
      };
      s.next(k);
      if k % 2 == 1 {
        s.error(err(7))
      } else {
        s.complete()
      }
    })
  };
  let _ = &failing_then_ok;
  match c {
    Creator::Interval => Built { o: observables::interval(ms(10), nt()).map(|x| x as i64), hot: None, connect: None },
    Creator::Timer => Built { o: observables::timer(ms(10), nt()).map(|_| 0), hot: None, connect: None },
    Creator::HotObserveOn => Built { o: hot.observable().observe_on(nt()), hot: Some(hot), connect: None },
    Creator::ColdSubscribeOn => Built { o: cold().subscribe_on(nt()), hot: None, connect: None },
    Creator::EndlessFromIterSubscribeOn => Built { o: observables::from_iter(1i64..).subscribe_on(nt()), hot: None, connect: None },
    Creator::EndlessRepeatSubscribeOn => Built { o: observables::repeat(1i64).subscribe_on(nt()), hot: None, connect: None },
    Creator::HotDebounce => Built { o: hot.observable().debounce(ms(10), nt()), hot: Some(hot), connect: None },
    Creator::HotTimeout => Built { o: hot.observable().timeout(ms(40), nt()), hot: Some(hot), connect: None },
    Creator::IntervalFlatMapObserveOn => {
      Built { o: observables::interval(ms(10), nt()).flat_map(|x| observables::just(x as i64).observe_on(nt())), hot: None, connect: None }
    }
    Creator::ColdObserveOnTwice => Built { o: cold().observe_on(nt()).observe_on(nt()), hot: None, connect: None },
    Creator::ColdObserveOn => Built { o: cold().observe_on(nt()), hot: None, connect: None },
    Creator::IntervalSampleInterval => {
      Built { o: observables::interval(ms(3), nt()).map(|x| x as i64).sample(observables::interval(ms(10), nt())), hot: None, connect: None }
    }
    Creator::IntervalPublish => {
      let p = observables::interval(ms(10), nt()).map(|x| x as i64).publish();
      let p2 = p.clone();
      Built { o: p.observable(), hot: None, connect: Some(Box::new(move || p2.connect())) }
    }
    Creator::HotDebounceFeedback | Creator::HotObserveOnFeedback => {
      let h2 = hot.clone();
      let base = if c == Creator::HotDebounceFeedback { hot.observable().debounce(ms(10), nt()) } else { hot.observable().observe_on(nt()) };
      let o = base.tap(
        move |x: i64| {
          if x < 100 {
            h2.next(x + 100)
          }
        },
        |_| {},
        || {},
      );
      Built { o, hot: Some(hot), connect: None }
    }
    Creator::TimerNotYetFired => Built { o: observables::timer(ms(40), nt()).map(|_| 0), hot: None, connect: None },
    Creator::IntervalNotYetFired => Built { o: observables::interval(ms(40), nt()).map(|x| x as i64), hot: None, connect: None },
    Creator::JustTakeUntilTimer => Built { o: cold().take_until(observables::timer(ms(40), nt())), hot: None, connect: None },
    Creator::JustSampleInterval => Built { o: cold().sample(observables::interval(ms(40), nt())), hot: None, connect: None },
    Creator::JustAmbInterval => Built { o: cold().amb(&[observables::interval(ms(10), nt()).map(|x| x as i64)]), hot: None, connect: None },
    Creator::IntervalTakeUntilJust => Built { o: observables::interval(ms(10), nt()).map(|x| x as i64).take_until(observables::just(())), hot: None, connect: None },
    Creator::ErrorMergeInterval => Built { o: observables::error(err(7)).merge(&[observables::interval(ms(10), nt()).map(|x| x as i64)]), hot: None, connect: None },
    Creator::IntervalRefCount => Built { o: observables::interval(ms(10), nt()).map(|x| x as i64).ref_count().observable(), hot: None, connect: None },
    Creator::IntervalReplay => Built { o: observables::interval(ms(10), nt()).map(|x| x as i64).replay().observable(), hot: None, connect: None },
    Creator::StartWithIntervalRefCount => {
      Built { o: observables::interval(ms(10), nt()).map(|x| x as i64).start_with([100i64].into_iter()).ref_count().observable(), hot: None, connect: None }
    }
    Creator::StartWithIntervalReplay => {
      Built { o: observables::interval(ms(10), nt()).map(|x| x as i64).start_with([100i64].into_iter()).replay().observable(), hot: None, connect: None }
    }
    Creator::IntervalDelay => Built { o: observables::interval(ms(10), nt()).map(|x| x as i64).delay(ms(5)), hot: None, connect: None },
  }
}

fn end_with(o: Observable<'static, i64>, e: Ending) -> Observable<'static, i64> {
  match e {
    Ending::Take1 => o.take(1),
    Ending::First => o.first(),
    Ending::TakeUntilTimer => o.take_until(observables::timer(ms(25), nt())),
    Ending::AmbNever => o.amb(&[observables::never()]).take(2),
    Ending::Retry2 => o.retry(2),
    Ending::Contains => o.contains(1).map(|b| b as i64),
    Ending::ElementAt => o.element_at(2),
    Ending::TakeWhile => o.take_while(|x| x < 1),
    Ending::All => o.all(|x| x < 1).map(|b| b as i64),
    _ => o,
  }
}

pub fn exit_scn(c: Creator, e: Ending, twice: bool, q: Option<u32>, t: Option<u32>) -> Scn {
  let name = format!("c15/{:?} ended by {:?}{}", c, e, if twice { " (twice in a row)" } else { "" });
  let mut sc = scn(&name, "worker-threads-exit", q, t, move || {
    let rec = Rec::new();
    let causes = Causes::new();
    let ended_at: Arc<Mutex<Vec<u64>>> = Arc::new(Mutex::new(vec![]));
    let (rec2, causes2, ea2) = (rec.clone(), causes.clone(), ended_at.clone());
    let body: Body = Box::new(move || {
      for _round in 0..(if twice { 2 } else { 1 }) {
        let b = create(c, &causes2);
        let o = end_with(b.o, e);
        let sub = rec2.sub_i64(&o);
        let conn = b.connect.map(|f| f());
        if let Some(h) = &b.hot {
          // a hot source driven by the main thread: items at 5 ms and 15 ms
          thread::sleep(ms(5));
          h.next(1);
          thread::sleep(ms(10));
          h.next(2);
          thread::sleep(ms(10));
          match e {
            Ending::SourceComplete => h.complete(),
            Ending::SourceError | Ending::Retry2 => h.error(err(7)),
            _ => {}
          }
        } else {
          thread::sleep(ms(25));
        }
        if e == Ending::Unsubscribe || (b.hot.is_some() && !matches!(e, Ending::SourceComplete | Ending::SourceError)) || c == Creator::IntervalPublish {
          sub.unsubscribe();
          if let Some(cn) = &conn {
            cn.unsubscribe();
          }
        } else if e == Ending::Retry2 {
          // retry re-subscribed the hot source; end the second attempt too
          if let Some(h) = &b.hot {
            h.error(err(8));
          }
          sub.unsubscribe();
        }
        ea2.lock().unwrap().push(rxverif_rt::vtime());
        // let every timer run out before the next round / the end
        thread::sleep(ms(200));
      }
    });
    let check: Check = Box::new(move |e2: &ExecEnd| {
      let mut v = base_violations(e2, &[]);
      let live = unfinished_threads(e2);
      if !live.is_empty() {
        let parked: Vec<usize> = e2.cond_blocked();
        v.push(viol(
          if live.iter().all(|t| parked.contains(t)) { "leaked-worker-parked-forever" } else { "thread-still-alive" },
          format!("threads {:?} have not exited although every subscription ended long ago; {}", live, thread_summary(e2)),
        ));
      }
      // exit within a bounded number of own steps: 2 * d_max of virtual time after the subscription ended
      let ends = ended_at.lock().unwrap().clone();
      let last_end = ends.last().cloned().unwrap_or(0);
      let d_max = 40 * MS;
      let mut worst = 0u64;
      for (i, t) in e2.threads.iter().enumerate().skip(1) {
        if let (ThreadEnd::Finished, Some(x)) = (&t.end, t.exit_vt) {
          // attribute the thread to the round in which it was spawned
          let round_end = ends.iter().cloned().find(|en| *en >= t.spawn_vt).unwrap_or(last_end);
          if x > round_end {
            worst = worst.max(x - round_end);
            if x - round_end > 2 * d_max {
              v.push(viol("thread-exited-too-late", format!("t{} exited {} ms after its subscription ended (bound {} ms)", i, (x - round_end) / MS, 2 * d_max / MS)));
            }
          }
        }
      }
      Verdict { outcome: format!("{} | {} | slowest exit +{}ms", rec.short(), thread_summary(e2), worst / MS), violations: v }
    });
    (body, check)
  });
  sc.cfg.max_steps = 60_000;
  sc.min_conflicts = 1;
  sc
}

/// a callback that panics on the worker of interval / timer: whatever becomes of the panic, once the
/// subscription has been unsubscribed no worker is left behind
fn panic_scn(timer: bool, q: Option<u32>, t: Option<u32>) -> Scn {
  let name = format!("c15/{} whose subscriber panics at the first tick, then unsubscribe", if timer { "Timer" } else { "Interval" });
  let mut sc = scn(&name, "worker-threads-exit", q, t, move || {
    let rec = Rec::new();
    let rec2 = rec.clone();
    let body: Body = Box::new(move || {
      let o: Observable<'static, i64> = if timer { observables::timer(ms(10), nt()).map(|_| 0) } else { observables::interval(ms(10), nt()).map(|x| x as i64) };
      let (r1, r2, r3) = (rec2.clone(), rec2.clone(), rec2.clone());
      let sub = o.subscribe(
        move |x| {
          r1.cb(EvK::Next(x));
          if x == 0 {
            panic!("callback-panic");
          }
        },
        move |_| r2.cb(EvK::Error(0)),
        move || r3.cb(EvK::Complete),
      );
      thread::sleep(ms(25));
      sub.unsubscribe();
      thread::sleep(ms(200));
    });
    let check: Check = Box::new(move |e2: &ExecEnd| {
      let mut v: Vec<rxverif_rt::explore::Violation> = base_violations(e2, &[]).into_iter().filter(|x| !(x.class == "panic" && x.detail.contains("callback-panic"))).collect();
      let live = unfinished_threads(e2);
      if !live.is_empty() {
        let parked: Vec<usize> = e2.cond_blocked();
        v.push(viol(
          if live.iter().all(|t| parked.contains(t)) { "leaked-worker-parked-forever" } else { "thread-still-alive" },
          format!("threads {:?} have not exited although the subscription was unsubscribed long ago; {}", live, thread_summary(e2)),
        ));
      }
      Verdict { outcome: format!("{} | {}", rec.short(), thread_summary(e2)), violations: v }
    });
    (body, check)
  });
  sc.min_conflicts = 1;
  sc.cfg.max_steps = 60_000;
  sc
}

/// two thread-backed inputs under amb / skip_until: the first item makes the operator drop one input
/// (a partial abort) while the main thread unsubscribes the whole - the other input's worker must go too,
/// although that input stays silent afterwards
fn partial_abort_scn(skip_until: bool, q: Option<u32>, t: Option<u32>) -> Scn {
  let name = format!("c15/{} of two observe_on inputs: the first item drops one input || unsubscribe, then silence", if skip_until { "skip_until" } else { "amb" });
  let mut sc = scn(&name, "worker-threads-exit", q, t, move || {
    let rec = Rec::new();
    let rec2 = rec.clone();
    let body: Body = Box::new(move || {
      let (h1, h2) = (Hot::<i64>::new(), Hot::<i64>::new());
      let (a, b) = (h1.observable().observe_on(nt()), h2.observable().observe_on(nt()));
      let o = if skip_until { a.skip_until(b) } else { b.amb(&[a]) };
      let sub = rec2.sub_i64(&o);
      // skip_until: the trigger (h2) fires; amb: input h2 emits first and wins
      let hx = h2.clone();
      let th = thread::spawn(move || hx.next(1));
      sub.unsubscribe();
      let _ = th.join();
      thread::sleep(ms(200));
    });
    let check: Check = Box::new(move |e2: &ExecEnd| {
      let mut v = base_violations(e2, &[]);
      let live = unfinished_threads(e2);
      if !live.is_empty() {
        let parked: Vec<usize> = e2.cond_blocked();
        v.push(viol(
          if live.iter().all(|t| parked.contains(t)) { "leaked-worker-parked-forever" } else { "thread-still-alive" },
          format!("threads {:?} have not exited although the subscription was unsubscribed long ago; {}", live, thread_summary(e2)),
        ));
      }
      Verdict { outcome: format!("{} | {}", rec.short(), thread_summary(e2)), violations: v }
    });
    (body, check)
  });
  sc.min_conflicts = 1;
  sc.cfg.max_steps = 60_000;
  sc
}

pub fn c15_scenarios() -> Vec<Scn> {
  use Creator::*;
  use Ending::*;
  let creators = [Interval, Timer, HotObserveOn, ColdSubscribeOn, ColdObserveOn, HotDebounce, HotTimeout, IntervalFlatMapObserveOn, ColdObserveOnTwice, IntervalSampleInterval, IntervalPublish, IntervalDelay, IntervalRefCount, IntervalReplay, StartWithIntervalRefCount, StartWithIntervalReplay, HotDebounceFeedback, HotObserveOnFeedback, TimerNotYetFired, IntervalNotYetFired, JustTakeUntilTimer, JustSampleInterval, JustAmbInterval, IntervalTakeUntilJust, ErrorMergeInterval, EndlessFromIterSubscribeOn, EndlessRepeatSubscribeOn];
  let endings = [SourceComplete, SourceError, Unsubscribe, Take1, First, TakeUntilTimer, AmbNever, Retry2, Contains, ElementAt, TakeWhile, All];
  let mut v = vec![];
  for c in creators {
    for e in endings {
      if !applicable(c, e) {
        continue;
      }
      let simple = matches!(c, Interval | Timer | HotObserveOn | ColdSubscribeOn | ColdObserveOn | HotDebounce | HotTimeout);
      let q = if simple && matches!(e, SourceComplete | Unsubscribe | Take1) {
        Some(2)
      } else if matches!((c, e), (HotObserveOn, Retry2) | (HotTimeout, Retry2) | (HotDebounce, Retry2)) {
        // a re-subscription on the worker thread racing the unsubscribe
        Some(2)
      } else if matches!(e, Unsubscribe | Take1 | Contains | ElementAt | TakeWhile | All) || matches!(c, JustTakeUntilTimer | JustSampleInterval | JustAmbInterval | IntervalTakeUntilJust | ErrorMergeInterval | EndlessFromIterSubscribeOn | EndlessRepeatSubscribeOn) {
        Some(1)
      } else {
        None
      };
      v.push(exit_scn(c, e, false, q, Some(if simple { 3 } else { 2 })));
      if matches!(e, Unsubscribe | Take1 | SourceComplete) {
        v.push(exit_scn(c, e, true, if simple && e == Unsubscribe { Some(1) } else { None }, Some(2)));
      }
    }
  }
  v.push(partial_abort_scn(false, Some(1), Some(2)));
  v.push(partial_abort_scn(true, Some(1), Some(2)));
  v.push(panic_scn(false, Some(1), Some(2)));
  v.push(panic_scn(true, Some(1), Some(2)));
  v
}

// ------------------------------------------------------------------- C16

#[derive(Clone, Debug)]
struct Timed {
  k: EvK,
  at_ms: u64,
}

fn timed(rec: &Rec) -> Vec<Timed> {
  rec.events().iter().map(|e| Timed { k: e.k.clone(), at_ms: e.vt / MS }).collect()
}
fn show_timed(t: &[Timed]) -> String {
  t.iter()
    .map(|x| match &x.k {
      EvK::Next(v) => format!("n{}@{}", v, x.at_ms),
      EvK::Error(k) => format!("E{}@{}", k, x.at_ms),
      EvK::Complete => format!("C@{}", x.at_ms),
    })
    .collect::<Vec<_>>()
    .join(" ")
}

fn time_scn<B, O>(name: &str, q: Option<u32>, t: Option<u32>, body_f: B, oracle: O) -> Scn
where
  B: Fn(&Rec, &Causes) + Send + Sync + Clone + 'static,
  O: Fn(&[Timed], &Rec, &ExecEnd) -> Vec<rxverif_rt::explore::Violation> + Send + Sync + Clone + 'static,
{
  let slow_ms: u64 = if name.contains("slow consumer") { 6 } else { 0 };
  let mut sc = scn(name, "time", q, t, move || {
    let rec = if slow_ms > 0 { Rec::slow(slow_ms) } else { Rec::new() };
    let causes = Causes::new();
    let (rec2, causes2, bf) = (rec.clone(), causes.clone(), body_f.clone());
    let body: Body = Box::new(move || bf(&rec2, &causes2));
    let of = oracle.clone();
    let check: Check = Box::new(move |e: &ExecEnd| {
      let mut v = base_violations(e, &[]);
      let tm = timed(&rec);
      v.extend(of(&tm, &rec, e));
      if !unfinished_threads(e).is_empty() {
        v.push(viol("thread-still-alive", thread_summary(e)));
      }
      Verdict { outcome: show_timed(&tm), violations: v }
    });
    (body, check)
  });
  sc.min_conflicts = 1;
  sc.cfg.max_steps = 60_000;
  sc
}

pub fn c16_scenarios() -> Vec<Scn> {
  let mut v = vec![];
  // interval(d): n at (n+1)*d until unsubscribed at time u
  // (39 ms: a period that is neither small nor a multiple of anything a timer might round to)
  for d in [10u64, 20, 39] {
    for u in [d / 2, d + d / 2, 2 * d + d / 2, 3 * d + 3] {
      let name = format!("c16/interval({}ms) unsubscribed at {}ms", d, u);
      let quick = d == 10 || (d == 39 && u == 2 * d + d / 2);
      v.push(time_scn(
        &name,
        if quick { Some(2) } else { None },
        Some(3),
        move |rec, _| {
          let sub = rec.subscribe(&observables::interval(ms(d), nt()), |x| x as i64);
          thread::sleep(ms(u));
          sub.unsubscribe();
        },
        move |tm, _, _| {
          let want: Vec<(i64, u64)> = (0..).map(|n| (n as i64, (n as u64 + 1) * d)).take_while(|(_, at)| *at < u).collect();
          let got: Vec<(i64, u64)> = tm.iter().filter_map(|x| if let EvK::Next(v) = x.k { Some((v, x.at_ms)) } else { None }).collect();
          let mut vs = vec![];
          if got != want {
            vs.push(viol("interval-off-the-clock", format!("got {}, want items {:?} (value, ms)", show_timed(tm), want)));
          }
          if tm.iter().any(|x| !matches!(x.k, EvK::Next(_))) {
            vs.push(viol("interval-terminated", show_timed(tm)));
          }
          vs
        },
      ));
    }
  }
  // interval(d) over a consumer that needs c per tick: whatever the implementation does about the
  // drift (nothing: tick k at k*d + (k-1)*c; compensating: at k*d), no tick comes before k*d
  for (d, c) in [(10u64, 3u64), (20, 7)] {
    let name = format!("c16/interval({}ms) over a consumer that needs {}ms per tick", d, c);
    v.push(time_scn(
      &name,
      if d == 10 { Some(2) } else { None },
      Some(3),
      move |rec, _| {
        let o = observables::interval(ms(d), nt()).tap(move |_| thread::sleep(ms(c)), |_| {}, || {});
        let sub = rec.subscribe(&o, |x| x as i64);
        thread::sleep(ms(4 * d + 3 * c + d / 2));
        sub.unsubscribe();
      },
      move |tm, _, _| {
        let got: Vec<(i64, u64)> = tm.iter().filter_map(|x| if let EvK::Next(v) = x.k { Some((v, x.at_ms)) } else { None }).collect();
        let mut vs = vec![];
        for (i, (val, at)) in got.iter().enumerate() {
          let k = i as u64 + 1;
          // the recorder sits below the slow stage: it sees tick k at (tick time) + c
          let (lo, hi) = (k * d + c, k * d + (k - 1) * c + c);
          if *val != i as i64 || *at < lo || *at > hi {
            vs.push(viol("interval-off-the-clock", format!("tick {} (value {}) seen at {}ms, want value {} within [{}, {}]ms; all: {}", k, val, at, i, lo, hi, show_timed(tm))));
            break;
          }
        }
        if got.len() < 4 {
          vs.push(viol("interval-off-the-clock", format!("only {} ticks within {}ms: {}", got.len(), 4 * d + 3 * c + d / 2, show_timed(tm))));
        }
        if tm.iter().any(|x| !matches!(x.k, EvK::Next(_))) {
          vs.push(viol("interval-terminated", show_timed(tm)));
        }
        vs
      },
    ));
  }
  // a period below one millisecond (a unit-conversion slip shows here: seed C16-i), read in microseconds
  v.push(time_scn(
    "c16/interval(300us) unsubscribed at 1000us",
    Some(2),
    Some(3),
    move |rec, _| {
      let sub = rec.subscribe(&observables::interval(std::time::Duration::from_micros(300), nt()), |x| x as i64);
      thread::sleep(std::time::Duration::from_micros(1000));
      sub.unsubscribe();
    },
    move |_, rec, _| {
      let got: Vec<(EvK, u64)> = rec.events().iter().map(|e| (e.k.clone(), e.vt / 1000)).collect();
      let want = vec![(EvK::Next(0), 300), (EvK::Next(1), 600), (EvK::Next(2), 900)];
      if got != want {
        vec![viol("interval-off-the-clock", format!("got {:?}, want {:?} (event, microseconds)", got, want))]
      } else {
        vec![]
      }
    },
  ));
  v.push(time_scn(
    "c16/timeout(300us): an item at 0, then silence",
    Some(2),
    Some(3),
    move |rec, _| {
      let hot = Hot::<i64>::new();
      let _sub = rec.subscribe(&hot.observable().timeout(std::time::Duration::from_micros(300), nt()), |x| x);
      hot.next(1);
      thread::sleep(std::time::Duration::from_micros(2000));
    },
    move |_, rec, _| {
      let got: Vec<(EvK, u64)> = rec.events().iter().map(|e| (e.k.clone(), e.vt / 1000)).collect();
      let ok = got.len() == 2 && got[0] == (EvK::Next(1), 0) && matches!(got[1], (EvK::Error(-110), 300));
      if !ok {
        vec![viol("timeout-off-the-clock", format!("got {:?}, want n1 at 0 and TimedOut (Error(-110)) at 300 microseconds", got))]
      } else {
        vec![]
      }
    },
  ));
  // the "no limit" idiom: timeout(Duration::MAX) lets everything through (its watchdogs sleep for ever: the
  // execution ends at the virtual-time horizon with those threads asleep, which is what the crate does)
  v.push({
    let mut sc = scn("c16/timeout(Duration::MAX) is transparent", "time", Some(1), Some(2), move || {
      let rec = Rec::new();
      let rec2 = rec.clone();
      let body: Body = Box::new(move || {
        let hot = Hot::<i64>::new();
        let _sub = rec2.sub_i64(&hot.observable().timeout(std::time::Duration::MAX, nt()));
        hot.next(1);
        hot.next(2);
        hot.complete();
      });
      let check: Check = Box::new(move |e: &ExecEnd| {
        let mut v: Vec<rxverif_rt::explore::Violation> = base_violations(e, &[]).into_iter().filter(|x| x.class != "livelock-or-horizon").collect();
        let got: Vec<EvK> = rec.events().iter().map(|x| x.k.clone()).collect();
        if got != vec![EvK::Next(1), EvK::Next(2), EvK::Complete] {
          v.push(viol("timeout-off-the-clock", format!("got {}, want n1 n2 C: no time limit, nothing may be lost or added", rec.short())));
        }
        Verdict { outcome: rec.short(), violations: v }
      });
      (body, check)
    });
    sc.min_conflicts = 1;
    sc
  });
  // interval on the default (synchronous) scheduler: ticks on the subscribing thread until take(n) ends it
  v.push(time_scn(
    "c16/interval(10ms, default scheduler).take(3) on the subscribing thread",
    Some(1),
    Some(1),
    move |rec, _| {
      let _s = rec.subscribe(&observables::interval(ms(10), schedulers::default_scheduler()).take(3), |x| x as i64);
      rec.cb(EvK::Next(-1)); // marker: subscribe returned
    },
    move |tm, _, _| {
      let got: Vec<(EvK, u64)> = tm.iter().map(|x| (x.k.clone(), x.at_ms)).collect();
      let want = vec![(EvK::Next(0), 10), (EvK::Next(1), 20), (EvK::Next(2), 30), (EvK::Complete, 30)];
      if got.len() == 5 && got[..4] == want[..] && got[4].0 == EvK::Next(-1) {
        vec![]
      } else {
        vec![viol("interval-off-the-clock", format!("got {}, want n0@10 n1@20 n2@30 C@30 and then the return of subscribe", show_timed(tm)))]
      }
    },
  ));
  // timer(d): once at d, then complete
  for d in [10u64, 20, 39] {
    v.push(time_scn(
      &format!("c16/timer({}ms)", d),
      if d == 10 { Some(2) } else { None },
      Some(3),
      move |rec, _| {
        let _s = rec.subscribe(&observables::timer(ms(d), nt()), |_| 0);
        thread::sleep(ms(3 * d));
      },
      move |tm, _, _| {
        let ok = tm.len() == 2 && tm[0].k == EvK::Next(0) && tm[0].at_ms == d && tm[1].k == EvK::Complete && tm[1].at_ms == d;
        if ok {
          vec![]
        } else {
          vec![viol("timer-off-the-clock", format!("got {}, want n0@{} C@{}", show_timed(tm), d, d))]
        }
      },
    ));
  }
  // delay(d) below a source thread with gaps
  for (gi, gaps) in [vec![3u64, 7, 13], vec![13, 3, 27]].into_iter().enumerate() {
    for d in [10u64, 20] {
      let g2 = gaps.clone();
      let gaps = gaps.clone();
      v.push(time_scn(
        &format!("c16/delay({}ms) over a source thread with gaps {:?}", d, gaps),
        if gi == 0 && d == 10 { Some(2) } else { None },
        Some(3),
        move |rec, causes| {
          let src = threaded_source("a", vec![Emit::N(1), Emit::N(2), Emit::N(3), Emit::C], vec![g2[0], g2[1], g2[2], 1], causes.clone());
          let _s = rec.sub_i64(&src.delay(ms(d)));
        },
        move |tm, _, _| {
          // delay sleeps on the emitting thread: item k is handed on d after it was received,
          // and the source's next emission is delayed accordingly
          let mut at = 0;
          let mut want = vec![];
          for (i, g) in gaps.iter().enumerate() {
            at += g;
            at += d;
            want.push((EvK::Next(i as i64 + 1), at));
          }
          want.push((EvK::Complete, at + 1));
          let got: Vec<(EvK, u64)> = tm.iter().map(|x| (x.k.clone(), x.at_ms)).collect();
          if got == want {
            vec![]
          } else {
            vec![viol("delay-off-the-clock", format!("got {}, want {:?}", show_timed(tm), want))]
          }
        },
      ));
    }
  }
  // delay(d) over a subject fed by two threads whose items overlap inside the delay: each item is
  // handed on d after *it* was received, whatever the other one is doing
  v.push(time_scn(
    "c16/delay(10ms) over a subject fed by two threads (items at 3ms and 7ms)",
    Some(2),
    Some(3),
    move |rec, _| {
      let sbj = subjects::Subject::<i64>::new();
      let _s = rec.sub_i64(&sbj.observable().delay(ms(10)));
      let (s1, s2) = (sbj.clone(), sbj.clone());
      let h1 = thread::spawn(move || {
        thread::sleep(ms(3));
        s1.next(1);
      });
      let h2 = thread::spawn(move || {
        thread::sleep(ms(7));
        s2.next(2);
      });
      let _ = h1.join();
      let _ = h2.join();
    },
    move |tm, _, _| {
      let got: Vec<(EvK, u64)> = tm.iter().map(|x| (x.k.clone(), x.at_ms)).collect();
      let want = vec![(EvK::Next(1), 13), (EvK::Next(2), 17)];
      if got == want {
        vec![]
      } else {
        vec![viol("delay-off-the-clock", format!("got {}, want {:?}", show_timed(tm), want))]
      }
    },
  ));
  // timeout(d): gaps just below / above d; completion inside / outside d; error
  for (name, gaps, script, want) in [
    ("gap below d, completes in time", vec![0u64, 7, 7], vec![Emit::N(1), Emit::N(2), Emit::C], vec![(EvK::Next(1), 0u64), (EvK::Next(2), 7), (EvK::Complete, 14)]),
    ("gap above d", vec![0, 13], vec![Emit::N(1), Emit::N(2)], vec![(EvK::Next(1), 0), (EvK::Error(-110), 10)]),
    ("completion too late", vec![0, 7, 13], vec![Emit::N(1), Emit::N(2), Emit::C], vec![(EvK::Next(1), 0), (EvK::Next(2), 7), (EvK::Error(-110), 17)]),
    ("source error inside d", vec![0, 3], vec![Emit::N(1), Emit::E(7)], vec![(EvK::Next(1), 0), (EvK::Error(7), 3)]),
    ("no item at all: no timer", vec![27], vec![Emit::C], vec![(EvK::Complete, 27)]),
    // each item callback takes 6 ms on the emitting thread: n1 0..6 (timer armed at 6), n2 arrives 13 (<16), 13..19, C at 22 (<29)
    ("slow consumer, successor in time", vec![0, 7, 3], vec![Emit::N(1), Emit::N(2), Emit::C], vec![(EvK::Next(1), 0), (EvK::Next(2), 13), (EvK::Complete, 22)]),
    ("slow consumer, successor late", vec![0, 13], vec![Emit::N(1), Emit::N(2)], vec![(EvK::Next(1), 0), (EvK::Error(-110), 16)]),
  ] {
    let (g2, s2, w2) = (gaps.clone(), script.clone(), want.clone());
    v.push(time_scn(
      &format!("c16/timeout(10ms): {}", name),
      Some(if name.starts_with("gap") || name.starts_with("slow") { 2 } else { 1 }),
      Some(3),
      move |rec, causes| {
        let src = threaded_source("a", s2.clone(), g2.clone(), causes.clone());
        let _s = rec.sub_i64(&src.timeout(ms(10), nt()));
        thread::sleep(ms(60));
      },
      move |tm, rec, _| {
        let got: Vec<(EvK, u64)> = tm.iter().map(|x| (x.k.clone(), x.at_ms)).collect();
        let mut vs = vec![];
        if got != w2 {
          vs.push(viol("timeout-off-the-clock", format!("got {}, want {:?} (Error(-110) = io::ErrorKind::TimedOut)", show_timed(tm), w2)));
        }
        let _ = rec;
        vs
      },
    ));
  }
  // timeout(39ms): gap of 30 ms passes, silence afterwards fails exactly 39 ms after the last item
  v.push(time_scn(
    "c16/timeout(39ms): gap of 30ms, then silence",
    Some(1),
    Some(2),
    move |rec, causes| {
      let src = threaded_source("a", vec![Emit::N(1), Emit::N(2)], vec![0, 30], causes.clone());
      let _s = rec.sub_i64(&src.timeout(ms(39), nt()));
      thread::sleep(ms(120));
    },
    move |tm, _, _| {
      let got: Vec<(EvK, u64)> = tm.iter().map(|x| (x.k.clone(), x.at_ms)).collect();
      let want = vec![(EvK::Next(1), 0u64), (EvK::Next(2), 30), (EvK::Error(-110), 69)];
      if got != want {
        vec![viol("timeout-off-the-clock", format!("got {}, want {:?} (Error(-110) = io::ErrorKind::TimedOut)", show_timed(tm), want))]
      } else {
        vec![]
      }
    },
  ));
  // ... the same with a slow consumer (6 ms per item): the source completes with an item pending while the
  // consumer is busy and the trigger fires in between - an implementation that flushes the pending item at
  // the source's completion must not hand it out a second time
  for op in ["sample", "debounce"] {
    v.push(time_scn(
      &format!("c16/{}(10ms) over a source thread with gaps [3, 4], slow consumer, the source completes at once", op),
      Some(1),
      Some(2),
      move |rec, causes| {
        let src = threaded_source("a", vec![Emit::N(1), Emit::N(2), Emit::C], vec![3, 4, 0], causes.clone());
        let o = if op == "sample" { src.sample(observables::interval(ms(10), nt())) } else { src.debounce(ms(10), nt()) };
        let _s = rec.sub_i64(&o);
        thread::sleep(ms(120));
      },
      move |tm, _, _| {
        let items: Vec<i64> = tm.iter().filter_map(|x| if let EvK::Next(v) = x.k { Some(v) } else { None }).collect();
        let mut sorted = items.clone();
        sorted.sort();
        sorted.dedup();
        let mut vs = vec![];
        if sorted != items || items.iter().any(|x| !(1..=2).contains(x)) {
          vs.push(viol("not-a-subsequence-of-the-source", format!("got {}", show_timed(tm))));
        }
        vs
      },
    ));
  }
  // sample / debounce: only items the source emitted, in source order, none twice
  for op in ["sample", "debounce"] {
    for (gi, gaps) in [vec![3u64, 7, 13, 27], vec![7, 3, 3, 13]].into_iter().enumerate() {
      let g2 = gaps.clone();
      v.push(time_scn(
        &format!("c16/{}(10ms) over a source thread with gaps {:?}", op, gaps),
        if gi == 0 { Some(1) } else { None },
        Some(2),
        move |rec, causes| {
          let src = threaded_source("a", vec![Emit::N(1), Emit::N(2), Emit::N(3), Emit::N(4), Emit::C], vec![g2[0], g2[1], g2[2], g2[3], 5], causes.clone());
          let o = if op == "sample" { src.sample(observables::interval(ms(10), nt())) } else { src.debounce(ms(10), nt()) };
          let _s = rec.sub_i64(&o);
          thread::sleep(ms(120));
        },
        move |tm, _, _| {
          let items: Vec<i64> = tm.iter().filter_map(|x| if let EvK::Next(v) = x.k { Some(v) } else { None }).collect();
          let mut sorted = items.clone();
          sorted.sort();
          sorted.dedup();
          let mut vs = vec![];
          if sorted != items || items.iter().any(|x| !(1..=4).contains(x)) {
            vs.push(viol("not-a-subsequence-of-the-source", format!("got {}", show_timed(tm))));
          }
          if let Some(p) = tm.iter().position(|x| !matches!(x.k, EvK::Next(_))) {
            if p + 1 != tm.len() {
              vs.push(viol("event-after-terminal", show_timed(tm)));
            }
          }
          vs
        },
      ));
    }
  }
  v
}
