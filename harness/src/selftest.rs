//! Harness self-tests run by `setup`: the reference interpreter against
//! marble examples of the ReactiveX documentation, and determinism of the
//! controlled runtime on every engine-T catalogue (same schedule => same
//! observations, 20 times).
use crate::s_ops::{Node, Op};
use crate::s_props::{cold_world, hot_world};
use crate::s_ref::SrcKind;
use crate::s_run::{run_ref, Act, Case};
use crate::s_val::*;

fn ref_out(p: Node, srcs: Vec<SrcKind>, acts: Vec<Act>) -> String {
  let tr = run_ref(&Case { srcs, pipeline: p, acts });
  show_evs(&tr.all_of(100))
}
fn cold(p: Node, script: Vec<Ev>) -> String {
  let w = cold_world(script, true);
  ref_out(p, w.srcs, w.acts)
}

pub fn run() -> i32 {
  let n = |v: &[i64]| -> Vec<Ev> { v.iter().map(|x| Ev::n(*x)).collect() };
  let mut with_c = |v: &[i64]| {
    let mut s = n(v);
    s.push(Ev::C);
    s
  };
  let s0 = || Node::Src(0);
  let mut fails = vec![];
  let mut check = |name: &str, got: String, want: &str| {
    if got != want {
      fails.push(format!("{}: got [{}], want [{}]", name, got, want));
    }
  };
  check("take(2)", cold(Node::op(Op::Take(2), s0()), with_c(&[1, 2, 3])), "n1 n2 C");
  check("skip(2)", cold(Node::op(Op::Skip(2), s0()), with_c(&[1, 2, 3])), "n3 C");
  check("take_last(2)", cold(Node::op(Op::TakeLast(2), s0()), with_c(&[1, 2, 3])), "n2 n3 C");
  check("skip_last(1)", cold(Node::op(Op::SkipLast(1), s0()), with_c(&[1, 2, 3])), "n1 n2 C");
  check("skip_while(<2)", cold(Node::op(Op::SkipWhile(Pred::Lt(2)), s0()), with_c(&[1, 2, 1])), "n2 n1 C");
  check("take_while(<2)", cold(Node::op(Op::TakeWhile(Pred::Lt(2)), s0()), with_c(&[1, 2, 1])), "n1 C");
  check("scan(+)", cold(Node::op(Op::Scan, s0()), with_c(&[1, 2, 3])), "n1 n3 n6 C");
  check("reduce(+)", cold(Node::op(Op::Reduce, s0()), with_c(&[1, 2, 3])), "n6 C");
  check("distinct_until_changed", cold(Node::op(Op::DistinctUntilChanged, s0()), with_c(&[1, 1, 2, 2, 1])), "n1 n2 n1 C");
  check("buffer(2)", cold(Node::op(Op::Buffer(2), s0()), with_c(&[1, 2, 3])), "n[1,2] n[3] C");
  check("element_at(2)", cold(Node::op(Op::ElementAt(2), s0()), with_c(&[1, 2, 3])), "n2 C");
  check("default_if_empty", cold(Node::op(Op::DefaultIfEmpty(5), s0()), with_c(&[])), "n5 C");
  check("count", cold(Node::op(Op::Count, s0()), with_c(&[1, 2, 3])), "n3 C");
  check("materialize", cold(Node::op(Op::Materialize, s0()), vec![Ev::n(1), Ev::E(5)]), "nNext(1) nError(5) C");
  check("retry(2)", cold(Node::op(Op::Retry(2), s0()), vec![Ev::n(1), Ev::E(5)]), "n1 n1 E5");
  check("start_with", cold(Node::op(Op::StartWith(vec![8, 9]), s0()), with_c(&[1])), "n8 n9 n1 C");
  let two = |op: Op| Node::opx(op, Node::Src(0), vec![Node::Src(1)]);
  let hot2 = |p: Node, acts: Vec<Act>| {
    let mut a = vec![Act::Sub(0)];
    a.extend(acts);
    ref_out(p, vec![SrcKind::Hot, SrcKind::Hot], a)
  };
  let e = |i: usize, v: i64| Act::Emit(i, Ev::n(v));
  let c = |i: usize| Act::Emit(i, Ev::C);
  check("merge", hot2(two(Op::Merge), vec![e(0, 1), e(1, 10), e(0, 2), c(0), e(1, 11), c(1)]), "n1 n10 n2 n11 C");
  check("zip", hot2(two(Op::Zip), vec![e(0, 1), e(0, 2), e(1, 10), e(1, 11), c(0), c(1)]), "n[1,10] n[2,11] C");
  check("combine_latest", hot2(two(Op::CombineLatest), vec![e(0, 1), e(1, 10), e(0, 2), e(1, 11), c(0), c(1)]), "n[1,10] n[2,10] n[2,11] C");
  check("amb", hot2(two(Op::Amb), vec![e(1, 10), e(0, 1), e(1, 11), c(1)]), "n10 n11 C");
  check("take_until", hot2(two(Op::TakeUntil), vec![e(0, 1), e(1, 10), e(0, 2)]), "n1 C");
  check("skip_until", hot2(two(Op::SkipUntil), vec![e(0, 1), e(1, 10), e(0, 2), c(0)]), "n2 C");
  check("sample", hot2(two(Op::Sample), vec![e(0, 1), e(0, 2), e(1, 10), e(1, 11), e(0, 3), e(1, 12)]), "n2 n3");
  check("sequence_equal (length mismatch)", hot2(two(Op::SequenceEqual), vec![e(0, 1), e(1, 1), c(0), e(1, 1)]), "nfalse C");
  check("concat", hot2(two(Op::Concat), vec![e(1, 10), e(0, 1), c(0), e(1, 11), c(1)]), "n1 n11 C");
  let w = hot_world(&[Ev::n(0), Ev::n(1), Ev::C]);
  check("flat_map(just x*10)", ref_out(Node::op(Op::FlatMap(Inner::Just10), s0()), w.srcs, w.acts), "n0 n10 C");
  for f in &fails {
    println!("SELFTEST FAIL (reference interpreter) {}", f);
  }
  // determinism of the controlled runtime
  let mut nondet = 0;
  for prop in ["C05", "C07", "C08", "C09", "C11", "C12", "C15", "C16", "C18", "C19"] {
    if let Some(cat) = crate::t_catalogue(prop) {
      for sc in cat.iter().take(6) {
        let (e0, v0) = rxverif_rt::explore::run_once(sc, vec![], false);
        for _ in 0..20 {
          let (e, v) = rxverif_rt::explore::run_once(sc, vec![], false);
          if v.outcome != v0.outcome || e.points.len() != e0.points.len() || e.steps != e0.steps {
            println!("SELFTEST FAIL (nondeterminism) {}: '{}' vs '{}'", sc.name, v.outcome, v0.outcome);
            nondet += 1;
            break;
          }
        }
      }
    }
  }
  if fails.is_empty() && nondet == 0 {
    println!("harness self-test ok: reference marble cases pass; default schedules are deterministic");
    0
  } else {
    2
  }
}
