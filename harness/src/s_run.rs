//! Engine S: real sources, recorders, the driver that runs one case on fresh
//! real objects and on the reference, and the generic comparison.
use crate::s_ops::*;
use crate::s_ref::*;
use crate::s_val::*;
use crate::tcommon::{err, Payload};
use another_rxrust::prelude::*;
use rxverif_rt::exec::{monitor_reset_ops, payload_to_string, set_monitor_mode, Livelock, SelfDeadlock};
use std::panic::{catch_unwind, AssertUnwindSafe};
use std::sync::atomic::{AtomicUsize, Ordering};
use std::sync::{Arc, Mutex};

#[derive(Clone, Debug, PartialEq)]
pub enum Act {
  /// subscribe root r (recorder id (r+1)*100) to the pipeline value
  Sub(usize),
  Emit(usize, Ev),
  Unsub(usize),
  /// the subscription was wrapped in utils::Using; drop the guard
  UsingDrop(usize),
  /// ... and the guard goes out of scope because its owner panics (dropped while unwinding)
  UsingDropUnwinding(usize),
  /// a copy of root r's Subscription is put under a `utils::Using` guard that stays in scope to the
  /// end of the run; unsubscribe() is then called on the other copy
  UnsubGuarded(usize),
  /// declaration (a no-op as a step): when root `outer`'s subscriber receives
  /// `trig`, its callback subscribes root `inner` to the same Observable value
  Nest { outer: usize, trig: Trig, inner: usize },
  /// declaration (a no-op as a step): when root `outer`'s subscriber receives `trig`, its
  /// callback pushes `ev` into hot source `src` - feedback on the same thread (the reference
  /// interpreter runs the push re-entrantly from the recorder, as the crate does).
  Feed { outer: usize, trig: Trig, src: usize, ev: Ev },
  /// declaration: when root `outer`'s subscriber receives `trig`, its callback unsubscribes
  /// root `outer`'s own subscription (no-op while subscribe() has not returned yet)
  SelfUnsub { outer: usize, trig: Trig },
  /// declaration: root `outer`'s callback panics (after it has recorded the event) at the trigger; the
  /// driver catches the unwinding at the emission that caused it and goes on. Real run only.
  PanicAt { outer: usize, trig: Trig },
  /// unsubscribe the k-th (1-based) inner observable that root r was handed by window_with_count / group_by
  InnerUnsub(usize, u32),
  /// emit `.1` into hot source `.0`; the first time the library clones an item during that emission,
  /// the item's Clone pushes `.2` into the same source (user code inside Item::clone). Real run only.
  EmitCloneFeed(usize, Ev, Ev),
  /// emit `.1` into hot source `.0`; the first user function of the pipeline (map's f, a predicate, an
  /// accumulator, a selector ...) that the library calls during that emission pushes `.2` into the same
  /// source before it returns its result. Real run only.
  EmitFnFeed(usize, Ev, Ev),
  /// declaration: the first time the pipeline's `tap` runs its next side effect, that closure
  /// subscribes root `inner` to the same Observable value
  NestFromTap { inner: usize },
}

#[derive(Clone, Copy, Debug, PartialEq)]
pub enum Trig {
  /// the n-th item (1-based)
  Item(usize),
  Complete,
  Error,
}
impl Trig {
  pub fn matches(&self, ev: &Ev, items_so_far: usize) -> bool {
    match (self, ev) {
      (Trig::Item(n), Ev::N(_)) => items_so_far == *n,
      (Trig::Complete, Ev::C) => true,
      (Trig::Error, Ev::E(_)) => true,
      _ => false,
    }
  }
}

#[derive(Clone, Debug)]
pub struct Case {
  pub srcs: Vec<SrcKind>,
  pub pipeline: Node,
  pub acts: Vec<Act>,
}

impl Case {
  pub fn show(&self) -> String {
    let srcs: Vec<String> = self
      .srcs
      .iter()
      .enumerate()
      .map(|(i, s)| match s {
        SrcKind::Hot => format!("s{}=hot", i),
        SrcKind::Subject => format!("s{}=Subject", i),
        SrcKind::BehaviorSubject => format!("s{}=BehaviorSubject", i),
        SrcKind::ReplaySubject => format!("s{}=ReplaySubject", i),
        SrcKind::Lib(l) => format!("s{}={:?}", i, l),
        SrcKind::Endless(v) => format!("s{}=endless({})", i, v),
        SrcKind::Cold { scripts, polite } => format!(
          "s{}={}cold[{}]",
          i,
          if *polite { "" } else { "rude-" },
          scripts.iter().map(|s| show_evs(s)).collect::<Vec<_>>().join(" | ")
        ),
      })
      .collect();
    let acts: Vec<String> = self
      .acts
      .iter()
      .map(|a| match a {
        Act::Sub(r) => format!("sub#{}", r),
        Act::Unsub(r) => format!("unsub#{}", r),
        Act::UsingDrop(r) => format!("drop-using#{}", r),
        Act::UsingDropUnwinding(r) => format!("drop-using-while-unwinding#{}", r),
        Act::UnsubGuarded(r) => format!("unsub#{}[a copy is under a Using guard still in scope]", r),
        Act::Nest { outer, trig, inner } => format!("[#{} subscribes #{} from its callback at {:?}]", outer, inner, trig),
        Act::Feed { outer, trig, src, ev } => format!("[#{}'s callback at {:?} pushes {} into s{}]", outer, trig, ev.show(), src),
        Act::SelfUnsub { outer, trig } => format!("[#{}'s callback at {:?} unsubscribes #{}]", outer, trig, outer),
        Act::PanicAt { outer, trig } => format!("[#{}'s callback panics at {:?}]", outer, trig),
        Act::InnerUnsub(r, k) => format!("unsub-inner#{}.{}", r, k),
        Act::EmitCloneFeed(i, e, f) => format!("s{}!{} [the item's Clone pushes {} into s{}]", i, e.show(), f.show(), i),
        Act::EmitFnFeed(i, e, f) => format!("s{}!{} [the first operator function called pushes {} into s{}]", i, e.show(), f.show(), i),
        Act::NestFromTap { inner } => format!("[tap's side effect subscribes #{}]", inner),
        Act::Emit(i, e) => format!("s{}!{}", i, e.show()),
      })
      .collect();
    format!("{} ; {} ; [{}]", self.pipeline.show(), srcs.join(" "), acts.join(", "))
  }
}

pub fn rec_id(root: usize) -> u32 {
  ((root + 1) * 100) as u32
}

// ------------------------------------------------------------ real sources

struct RealSrc {
  subject: subjects::Subject<'static, V>,
  behavior: subjects::BehaviorSubject<'static, V>,
  replay: subjects::ReplaySubject<'static, V>,
  observers: Arc<Mutex<Vec<Observer<'static, V>>>>,
  err_addrs: Arc<Mutex<Vec<(i64, usize)>>>,
  /// polite cold sources: is_subscribed() readings taken before each would-be emission, per instance
  emitted: Arc<Mutex<Vec<usize>>>,
  toks: Tokens,
  idx: usize,
  /// every source's observer list, and the log of the probes taken at subscribe time
  registry: Registry,
}

#[derive(Clone, Default)]
struct Registry {
  lists: Arc<Mutex<Vec<Arc<Mutex<Vec<Observer<'static, V>>>>>>>,
  snaps: Arc<Mutex<Vec<(usize, usize, Vec<Vec<bool>>)>>>,
}

thread_local! {
  /// one error object per code and run: a source that fails twice with the same code hands out clones of
  /// the same `RxError` (as `observables::error`, a stored error of a subject, or any source that keeps its
  /// error around does) - an operator must not read anything into that identity
  static ERRS: std::cell::RefCell<std::collections::HashMap<i64, RxError>> = std::cell::RefCell::new(std::collections::HashMap::new());
}
fn reset_errs() {
  ERRS.with(|m| m.borrow_mut().clear());
}
fn mk_err(k: i64, addrs: &Arc<Mutex<Vec<(i64, usize)>>>) -> RxError {
  let e = ERRS.with(|m| m.borrow_mut().entry(k).or_insert_with(|| err(k)).clone());
  let a = e.downcast_ref::<Payload>().map(|p| p as *const Payload as usize).unwrap_or(0);
  addrs.lock().unwrap().push((k, a));
  e
}

impl RealSrc {
  fn new(toks: &Tokens, registry: &Registry) -> RealSrc {
    let observers = Arc::new(Mutex::new(vec![]));
    let idx = {
      let mut l = registry.lists.lock().unwrap();
      l.push(observers.clone());
      l.len() - 1
    };
    RealSrc {
      subject: subjects::Subject::new(),
      behavior: subjects::BehaviorSubject::new(V::int(0)),
      replay: subjects::ReplaySubject::new(),
      observers,
      err_addrs: Arc::new(Mutex::new(vec![])),
      emitted: Arc::new(Mutex::new(vec![])),
      toks: toks.clone(),
      idx,
      registry: registry.clone(),
    }
  }
  fn observable(&self, kind: &SrcKind) -> Observable<'static, V> {
    match kind {
      SrcKind::Subject => return self.subject.observable(),
      SrcKind::BehaviorSubject => return self.behavior.observable(),
      SrcKind::ReplaySubject => return self.replay.observable(),
      _ => {}
    }
    if let SrcKind::Lib(l) = kind {
      return lib_observable(l, &self.err_addrs);
    }
    let (obs, addrs, emitted, toks) =
      (self.observers.clone(), self.err_addrs.clone(), self.emitted.clone(), self.toks.clone());
    let kind = kind.clone();
    let (idx, registry) = (self.idx, self.registry.clone());
    Observable::create(move |s: Observer<'static, V>| {
      let inst = {
        let mut o = obs.lock().unwrap();
        o.push(s.clone());
        emitted.lock().unwrap().push(0);
        o.len() - 1
      };
      {
        // probe: what every observer handed out so far reads at this very moment
        let lists: Vec<Arc<Mutex<Vec<Observer<'static, V>>>>> = registry.lists.lock().unwrap().clone();
        let snap: Vec<Vec<bool>> = lists.iter().map(|l| l.lock().unwrap().clone().iter().map(|o| o.is_subscribed()).collect()).collect();
        registry.snaps.lock().unwrap().push((idx, inst, snap));
      }
      match &kind {
        SrcKind::Hot | SrcKind::Subject | SrcKind::BehaviorSubject | SrcKind::ReplaySubject | SrcKind::Lib(_) => {}
        SrcKind::Endless(v) => {
          let mut n = 0;
          while s.is_subscribed() && n < ENDLESS_CAP {
            emitted.lock().unwrap()[inst] += 1;
            s.next(V { d: D::I(*v), tok: Some(toks.take("item")) });
            n += 1;
          }
        }
        SrcKind::Cold { scripts, polite } => {
          if inst >= MAX_SUBSCRIPTIONS_PER_SOURCE {
            s.complete();
            return;
          }
          let script = &scripts[inst.min(scripts.len() - 1)];
          for ev in script {
            if *polite && !s.is_subscribed() {
              break;
            }
            emitted.lock().unwrap()[inst] += 1;
            match ev {
              Ev::N(d) => s.next(V { d: d.clone(), tok: Some(toks.take("item")) }),
              Ev::E(k) => s.error(mk_err(*k, &addrs)),
              Ev::C => s.complete(),
            }
          }
        }
      }
    })
  }
  fn push_subject(&self, kind: &SrcKind, ev: &Ev) {
    let item = |d: &D| V { d: d.clone(), tok: Some(self.toks.take("item")) };
    match (kind, ev) {
      (SrcKind::BehaviorSubject, Ev::N(d)) => self.behavior.next(item(d)),
      (SrcKind::BehaviorSubject, Ev::E(k)) => self.behavior.error(mk_err(*k, &self.err_addrs)),
      (SrcKind::BehaviorSubject, Ev::C) => self.behavior.complete(),
      (SrcKind::ReplaySubject, Ev::N(d)) => self.replay.next(item(d)),
      (SrcKind::ReplaySubject, Ev::E(k)) => self.replay.error(mk_err(*k, &self.err_addrs)),
      (SrcKind::ReplaySubject, Ev::C) => self.replay.complete(),
      (_, Ev::N(d)) => self.subject.next(item(d)),
      (_, Ev::E(k)) => self.subject.error(mk_err(*k, &self.err_addrs)),
      (_, Ev::C) => self.subject.complete(),
    }
  }
  fn held(&self, kind: &SrcKind) -> usize {
    match kind {
      SrcKind::BehaviorSubject => self.behavior.verif_observer_count(),
      SrcKind::ReplaySubject => self.replay.verif_observer_count(),
      _ => self.subject.verif_observer_count(),
    }
  }
  fn push(&self, ev: &Ev) {
    let os: Vec<Observer<'static, V>> = self.observers.lock().unwrap().clone();
    for o in os {
      match ev {
        Ev::N(d) => o.next(V { d: d.clone(), tok: Some(self.toks.take("item")) }),
        Ev::E(k) => o.error(mk_err(*k, &self.err_addrs)),
        Ev::C => o.complete(),
      }
    }
  }
  fn alive(&self) -> Vec<bool> {
    let os: Vec<Observer<'static, V>> = self.observers.lock().unwrap().clone();
    os.iter().map(|o| o.is_subscribed()).collect()
  }
}

fn lib_observable(l: &LibSrc, addrs: &Arc<Mutex<Vec<(i64, usize)>>>) -> Observable<'static, V> {
  use LibSrc::*;
  let addrs = addrs.clone();
  match l.clone() {
    Just(v) => observables::just(V::int(v)),
    FromIter(v) => observables::from_iter(v.into_iter().map(V::int)),
    Range(a, k) => observables::range(a, k).map(V::int),
    Empty => observables::empty(),
    Never => observables::never(),
    Error(k) => observables::error(mk_err(k, &addrs)),
    DeferJust(v) => observables::defer(move || observables::just(V::int(v))),
    DeferError(k) => observables::defer(move || observables::error(mk_err(k, &addrs))),
    Start(v) => observables::start(move || V::int(v)),
    FromResultOk(v) => observables::from_result(Ok::<V, Payload>(V::int(v))),
    FromResultErr(k) => observables::from_result(Err::<V, Payload>(Payload(k))),
    RepeatTake(v, n) => observables::repeat(V::int(v)).take(n),
    SomethingSuccess(v) => utils::Something::success(V::int(v)).proceed(),
    SomethingError(k) => utils::Something::<V>::error(mk_err(k, &addrs)).proceed(),
  }
}

// --------------------------------------------------------------- recorder

#[derive(Clone, Debug, PartialEq)]
pub struct RecEv {
  pub step: usize,
  pub rec: u32,
  pub ev: Ev,
  pub err_addr: usize,
}

#[derive(Clone)]
struct SRec {
  log: Arc<Mutex<Vec<RecEv>>>,
  step: Arc<AtomicUsize>,
  toks: Tokens,
  inner_subs: Arc<Mutex<Vec<(u32, Subscription<'static>)>>>,
  built: Arc<Mutex<Option<Arc<Built>>>>,
  nests: Arc<Mutex<Vec<(usize, Trig, usize, bool)>>>,
  nested_subs: Arc<Mutex<Vec<(usize, Subscription<'static>)>>>,
  feeds: Arc<Mutex<Vec<(usize, Trig, usize, Ev, bool)>>>,
  pushers: Arc<Mutex<Vec<Arc<dyn Fn(&Ev) + Send + Sync>>>>,
  self_unsubs: Arc<Mutex<Vec<(usize, Trig, bool)>>>,
  panics: Arc<Mutex<Vec<(usize, Trig, bool)>>>,
  root_subs: Arc<Mutex<Vec<Option<Subscription<'static>>>>>,
  /// (root, length of the log when its unsubscribe - called from a callback - had returned)
  unsub_marks: Arc<Mutex<Vec<(usize, usize)>>>,
}

fn conv_mat(m: Material<V>) -> D {
  match m {
    Material::Next(x) => D::MNext(Box::new(x.d)),
    Material::Error(e) => D::MErr(crate::tcommon::err_code(&e)),
    Material::Complete => D::MComplete,
  }
}

/// payload of a panic a subscriber callback raises on purpose (Act::PanicAt)
pub struct CallbackPanic;

impl SRec {
  fn push(&self, rec: u32, ev: Ev, err_addr: usize) {
    let step = self.step.load(Ordering::Relaxed);
    let items = {
      let mut l = self.log.lock().unwrap();
      l.push(RecEv { step, rec, ev: ev.clone(), err_addr });
      l.iter().filter(|e| e.rec == rec && !e.ev.is_terminal()).count()
    };
    if rec % 100 == 0 {
      let root = (rec / 100 - 1) as usize;
      let fire: Vec<usize> = {
        let mut n = self.nests.lock().unwrap();
        n.iter_mut()
          .filter(|x| x.0 == root && !x.3 && x.1.matches(&ev, items))
          .map(|x| {
            x.3 = true;
            x.2
          })
          .collect()
      };
      for inner in fire {
        let b = self.built.lock().unwrap().clone();
        if let Some(b) = b {
          let s = self.subscribe(&b, rec_id(inner));
          self.nested_subs.lock().unwrap().push((inner, s));
        }
      }
      let feed: Vec<(usize, Ev)> = {
        let mut f = self.feeds.lock().unwrap();
        f.iter_mut()
          .filter(|x| x.0 == root && !x.4 && x.1.matches(&ev, items))
          .map(|x| {
            x.4 = true;
            (x.2, x.3.clone())
          })
          .collect()
      };
      for (src, e) in feed {
        let p = self.pushers.lock().unwrap().get(src).cloned();
        if let Some(p) = p {
          p(&e);
        }
      }
      let su: bool = {
        let mut f = self.self_unsubs.lock().unwrap();
        let mut hit = false;
        for x in f.iter_mut() {
          if x.0 == root && !x.2 && x.1.matches(&ev, items) {
            x.2 = true;
            hit = true;
          }
        }
        hit
      };
      if su {
        let s = self.root_subs.lock().unwrap().get(root).cloned().flatten();
        if let Some(s) = s {
          s.unsubscribe();
          let n = self.log.lock().unwrap().len();
          self.unsub_marks.lock().unwrap().push((root, n));
        }
      }
      let pn: bool = {
        let mut f = self.panics.lock().unwrap();
        let mut hit = false;
        for x in f.iter_mut() {
          if x.0 == root && !x.2 && x.1.matches(&ev, items) {
            x.2 = true;
            hit = true;
          }
        }
        hit
      };
      if pn {
        std::panic::panic_any(CallbackPanic);
      }
    }
  }
  fn sub_typed<T, F>(&self, o: &Observable<'static, T>, rec: u32, conv: F) -> Subscription<'static>
  where
    T: Clone + Send + Sync + 'static,
    F: Fn(T) -> D + Send + Sync + 'static,
  {
    let (a, b, c) = (self.clone(), self.clone(), self.clone());
    let (t1, t2, t3) = (self.toks.take("subscriber-next"), self.toks.take("subscriber-error"), self.toks.take("subscriber-complete"));
    o.subscribe(
      move |x| {
        let _ = &t1;
        a.push(rec, Ev::N(conv(x)), 0)
      },
      move |e: RxError| {
        let _ = &t2;
        let addr = e.downcast_ref::<Payload>().map(|p| p as *const Payload as usize).unwrap_or(0);
        b.push(rec, Ev::E(crate::tcommon::err_code(&e)), addr)
      },
      move || {
        let _ = &t3;
        c.push(rec, Ev::C, 0)
      },
    )
  }
  fn subscribe(&self, b: &Built, rec: u32) -> Subscription<'static> {
    match b {
      Built::V(o) => self.sub_typed(o, rec, |x: V| x.d),
      Built::Bool(o) => self.sub_typed(o, rec, D::B),
      Built::Usize(o) => self.sub_typed(o, rec, |n: usize| D::I(n as i64)),
      Built::VecV(o) => self.sub_typed(o, rec, |v: Vec<V>| D::L(v.into_iter().map(|x| x.d).collect())),
      Built::SumCount(o) => self.sub_typed(o, rec, |(s, c): (V, usize)| D::SC(Box::new(s.d), c)),
      Built::Mat(o) => self.sub_typed(o, rec, conv_mat),
      Built::Any(o) => self.sub_typed(o, rec, |a: Arc<Box<dyn std::any::Any + Send + Sync>>| {
        a.downcast_ref::<V>().map(|v| v.d.clone()).unwrap_or(D::U)
      }),
      Built::Ts(o) => self.sub_typed(o, rec, |(_, v): (another_rxrust::vstd::time::SystemTime, V)| v.d),
      Built::Dur(o) => self.sub_typed(o, rec, |_| D::U),
      Built::Nested(o) => {
        let me = self.clone();
        let ord = Arc::new(AtomicUsize::new(0));
        self.sub_typed(o, rec, move |inner: Observable<'static, V>| {
          let k = ord.fetch_add(1, Ordering::Relaxed) as u32 + 1;
          // the item is logged by sub_typed after this returns; subscribe first so
          // nothing the inner observable emits right away is missed
          let s = me.sub_typed(&inner, rec + k, |x: V| x.d);
          me.inner_subs.lock().unwrap().push((rec + k, s));
          D::Inner(k)
        })
      }
    }
  }
}

// ------------------------------------------------------------------ traces

#[derive(Clone, Debug, Default)]
pub struct Trace {
  pub events: Vec<RecEv>,
  /// after each step: Subscription::is_subscribed() of every root subscribed so far (None = not yet)
  pub root_live: Vec<Vec<Option<bool>>>,
  /// after each step (real run): Subscription::is_subscribed() of every inner observable's subscription made so far
  pub inner_live: Vec<Vec<(u32, bool)>>,
  /// after each step: per source, per instance: does the observer still read subscribed?
  pub src_alive: Vec<Vec<Vec<bool>>>,
  /// reference only: instance was cancelled lazily (amb loser) and has not attempted since
  pub src_lazy: Vec<Vec<Vec<bool>>>,
  /// at every subscription of a harness source (src, instance): is_subscribed() of every observer
  /// handed out so far (the new one included), and - reference only - the lazy flags
  pub sub_snaps: Vec<(usize, usize, Vec<Vec<bool>>, Vec<Vec<bool>>)>,
  /// (root, index into `events`): the root's unsubscribe, called from one of its own callbacks, had returned
  pub self_unsub_marks: Vec<(usize, usize)>,
  /// after each step: per source the number of observers a library Subject still holds (real),
  /// resp. the number of live subscriptions (reference)
  pub held: Vec<Vec<usize>>,
  pub n_sub: Vec<usize>,
  pub emitted: Vec<Vec<usize>>,
  pub tap_log: Vec<Ev>,
  pub tokens_owned: Vec<String>,
  pub err_addrs: Vec<(i64, usize)>,
  pub panic: Option<String>,
  pub self_deadlock: Option<String>,
  pub livelock: Option<String>,
  pub hit_cap: bool,
}

impl Trace {
  pub fn events_of(&self, step: usize, rec: u32) -> Vec<Ev> {
    self.events.iter().filter(|e| e.step == step && e.rec == rec).map(|e| e.ev.clone()).collect()
  }
  pub fn all_of(&self, rec: u32) -> Vec<Ev> {
    self.events.iter().filter(|e| e.rec == rec).map(|e| e.ev.clone()).collect()
  }
  pub fn recs(&self) -> Vec<u32> {
    let mut v: Vec<u32> = self.events.iter().map(|e| e.rec).collect();
    v.sort();
    v.dedup();
    v
  }
  pub fn show(&self) -> String {
    let mut s = String::new();
    for r in self.recs() {
      s.push_str(&format!("#{}: ", r));
      let mut last = usize::MAX;
      for e in self.events.iter().filter(|e| e.rec == r) {
        if e.step != last {
          s.push_str(&format!("@{} ", e.step));
          last = e.step;
        }
        s.push_str(&e.ev.show());
        s.push(' ');
      }
    }
    if let Some(p) = &self.panic {
      s.push_str(&format!("PANIC({}) ", p));
    }
    if let Some(p) = &self.self_deadlock {
      s.push_str(&format!("SELF-DEADLOCK({}) ", p));
    }
    if let Some(p) = &self.livelock {
      s.push_str(&format!("LIVELOCK({}) ", p));
    }
    s
  }
}

pub struct RunOpts {
  /// drop all handles at the end and count surviving tokens (C17)
  pub check_tokens: bool,
  /// the caller drops the pipeline (the Observable value) right after its last subscribe
  pub drop_pipeline_early: bool,
}

pub fn run_real(case: &Case, opts: &RunOpts) -> Trace {
  reset_errs();
  let mut tr = Trace::default();
  let toks = Tokens::default();
  let tap_log = Arc::new(Mutex::new(vec![]));
  let registry = Registry::default();
  let srcs: Vec<RealSrc> = case.srcs.iter().map(|_| RealSrc::new(&toks, &registry)).collect();
  let rec = SRec {
    log: Arc::new(Mutex::new(vec![])),
    step: Arc::new(AtomicUsize::new(0)),
    toks: toks.clone(),
    inner_subs: Arc::new(Mutex::new(vec![])),
    built: Arc::new(Mutex::new(None)),
    nests: Arc::new(Mutex::new(
      case.acts.iter().filter_map(|a| if let Act::Nest { outer, trig, inner } = a { Some((*outer, *trig, *inner, false)) } else { None }).collect(),
    )),
    nested_subs: Arc::new(Mutex::new(vec![])),
    feeds: Arc::new(Mutex::new(
      case.acts.iter().filter_map(|a| if let Act::Feed { outer, trig, src, ev } = a { Some((*outer, *trig, *src, ev.clone(), false)) } else { None }).collect(),
    )),
    pushers: Arc::new(Mutex::new(vec![])),
    self_unsubs: Arc::new(Mutex::new(case.acts.iter().filter_map(|a| if let Act::SelfUnsub { outer, trig } = a { Some((*outer, *trig, false)) } else { None }).collect())),
    panics: Arc::new(Mutex::new(case.acts.iter().filter_map(|a| if let Act::PanicAt { outer, trig } = a { Some((*outer, *trig, false)) } else { None }).collect())),
    root_subs: Arc::new(Mutex::new(vec![])),
    unsub_marks: Arc::new(Mutex::new(vec![])),
  };
  let n_roots = case
    .acts
    .iter()
    .filter_map(|a| match a {
      Act::Sub(r) => Some(*r + 1),
      Act::Nest { inner, .. } | Act::NestFromTap { inner } => Some(*inner + 1),
      _ => None,
    })
    .max()
    .unwrap_or(0);
  let root_live = Arc::new(Mutex::new(Vec::<Vec<Option<bool>>>::new()));
  let inner_live = Arc::new(Mutex::new(Vec::<Vec<(u32, bool)>>::new()));
  let src_alive = Arc::new(Mutex::new(Vec::<Vec<Vec<bool>>>::new()));
  let held = Arc::new(Mutex::new(Vec::<Vec<usize>>::new()));
  set_monitor_mode(true);
  monitor_reset_ops();
  let r = catch_unwind(AssertUnwindSafe(|| {
    let env = Env {
      srcs: srcs.iter().zip(case.srcs.iter()).map(|(s, k)| s.observable(k)).collect(),
      push: srcs
        .iter()
        .zip(case.srcs.iter())
        .map(|(s, k)| {
          let (subject, observers, toks, addrs, is_subject) = (s.subject.clone(), s.observers.clone(), s.toks.clone(), s.err_addrs.clone(), *k == SrcKind::Subject);
          let f: Arc<dyn Fn(&Ev) + Send + Sync> = Arc::new(move |ev: &Ev| {
            if is_subject {
              match ev {
                Ev::N(d) => subject.next(V { d: d.clone(), tok: Some(toks.take("item")) }),
                Ev::E(k) => subject.error(mk_err(*k, &addrs)),
                Ev::C => subject.complete(),
              }
            } else {
              let os: Vec<Observer<'static, V>> = observers.lock().unwrap().clone();
              for o in os {
                match ev {
                  Ev::N(d) => o.next(V { d: d.clone(), tok: Some(toks.take("item")) }),
                  Ev::E(k) => o.error(mk_err(*k, &addrs)),
                  Ev::C => o.complete(),
                }
              }
            }
          });
          f
        })
        .collect(),
      toks: toks.clone(),
      tap_log: tap_log.clone(),
      tap_hook: Arc::new(Mutex::new(None)),
    };
    if let Some(inner) = case.acts.iter().find_map(|a| if let Act::NestFromTap { inner } = a { Some(*inner) } else { None }) {
      let rec2 = rec.clone();
      *env.tap_hook.lock().unwrap() = Some(Box::new(move || {
        let b = rec2.built.lock().unwrap().clone();
        if let Some(b) = b {
          let s = rec2.subscribe(&b, rec_id(inner));
          rec2.nested_subs.lock().unwrap().push((inner, s));
        }
      }));
    }
    let mut built_held = Some(Arc::new(build_typed(&case.pipeline, &env)));
    let last_sub = case.acts.iter().rposition(|a| matches!(a, Act::Sub(_)));
    *rec.built.lock().unwrap() = built_held.clone();
    *rec.pushers.lock().unwrap() = env.push.clone();
    drop(env);
    let mut subs: Vec<Option<Subscription<'static>>> = (0..n_roots).map(|_| None).collect();
    let mut guards: Vec<utils::Using<'static>> = vec![];
    let has_panic_decl = case.acts.iter().any(|a| matches!(a, Act::PanicAt { .. }));
    for (step, act) in case.acts.iter().enumerate() {
      rec.step.store(step, Ordering::Relaxed);
      match act {
        Act::Sub(r) if has_panic_decl => {
          // a callback that panics during the hand-over inside subscribe(): the caller guards the call and
          // gets no Subscription back
          let bh = built_held.clone();
          let rec2 = rec.clone();
          let rr = *r;
          match std::panic::catch_unwind(std::panic::AssertUnwindSafe(move || rec2.subscribe(bh.as_ref().expect("no subscribe after the pipeline was dropped"), rec_id(rr)))) {
            Ok(s) => {
              let mut rs = rec.root_subs.lock().unwrap();
              while rs.len() <= *r {
                rs.push(None);
              }
              rs[*r] = Some(s.clone());
              subs[*r] = Some(s)
            }
            Err(p) => {
              if !p.is::<CallbackPanic>() {
                std::panic::resume_unwind(p);
              }
            }
          }
        }
        Act::Sub(r) => {
          let s = rec.subscribe(built_held.as_ref().expect("no subscribe after the pipeline was dropped"), rec_id(*r));
          {
            let mut rs = rec.root_subs.lock().unwrap();
            while rs.len() <= *r {
              rs.push(None);
            }
            rs[*r] = Some(s.clone());
          }
          subs[*r] = Some(s)
        }
        Act::Emit(i, ev) => {
          let emit = || {
            if matches!(case.srcs[*i], SrcKind::Subject | SrcKind::BehaviorSubject | SrcKind::ReplaySubject) {
              srcs[*i].push_subject(&case.srcs[*i], ev)
            } else {
              srcs[*i].push(ev)
            }
          };
          if has_panic_decl {
            // the caller of next()/error()/complete() guards the call: a panic of the subscriber's callback
            // (and only that) ends there, and the source goes on
            if let Err(p) = std::panic::catch_unwind(std::panic::AssertUnwindSafe(emit)) {
              if !p.is::<CallbackPanic>() {
                std::panic::resume_unwind(p);
              }
            }
          } else {
            emit()
          }
        }
        Act::EmitCloneFeed(i, ev, fed) => {
          let p = rec.pushers.lock().unwrap().get(*i).cloned();
          if let Some(p) = p {
            let (p2, fed2) = (p.clone(), fed.clone());
            crate::s_val::arm_clone_hook(Some(Box::new(move || p2(&fed2))));
            p(ev);
            crate::s_val::arm_clone_hook(None);
          }
        }
        Act::EmitFnFeed(i, ev, fed) => {
          let p = rec.pushers.lock().unwrap().get(*i).cloned();
          if let Some(p) = p {
            let (p2, fed2) = (p.clone(), fed.clone());
            crate::s_val::arm_fn_hook(Some(Box::new(move || p2(&fed2))));
            p(ev);
            crate::s_val::arm_fn_hook(None);
          }
        }
        Act::Unsub(r) => {
          if let Some(s) = &subs[*r] {
            s.unsubscribe()
          }
        }
        Act::UsingDrop(r) => {
          if let Some(s) = &subs[*r] {
            let guard = utils::Using::new(s.clone());
            drop(guard);
          }
        }
        Act::UnsubGuarded(r) => {
          if let Some(s) = &subs[*r] {
            guards.push(utils::Using::new(s.clone()));
            s.unsubscribe();
          }
        }
        Act::UsingDropUnwinding(r) => {
          if let Some(s) = &subs[*r] {
            struct UnwindProbe;
            let guard = utils::Using::new(s.clone());
            let _ = std::panic::catch_unwind(std::panic::AssertUnwindSafe(move || {
              let _guard = guard;
              std::panic::panic_any(UnwindProbe);
            }));
          }
        }
        Act::InnerUnsub(r, k) => {
          let s = rec.inner_subs.lock().unwrap().iter().find(|x| x.0 == rec_id(*r) + *k).map(|x| x.1.clone());
          if let Some(s) = s {
            s.unsubscribe()
          }
        }
        Act::Nest { .. } | Act::Feed { .. } | Act::SelfUnsub { .. } | Act::NestFromTap { .. } | Act::PanicAt { .. } => {}
      }
      for (r, s) in rec.nested_subs.lock().unwrap().iter() {
        if subs[*r].is_none() {
          subs[*r] = Some(s.clone());
        }
      }
      if opts.drop_pipeline_early && Some(step) == last_sub {
        built_held = None;
        *rec.built.lock().unwrap() = None;
      }
      root_live.lock().unwrap().push(subs.iter().map(|s| s.as_ref().map(|s| s.is_subscribed())).collect());
      inner_live.lock().unwrap().push(rec.inner_subs.lock().unwrap().iter().map(|(r, s)| (*r, s.is_subscribed())).collect());
      src_alive.lock().unwrap().push(srcs.iter().map(|s| s.alive()).collect());
      held.lock().unwrap().push(srcs.iter().zip(case.srcs.iter()).map(|(s, k)| s.held(k)).collect());
    }
    // end what is still live (after every probe has been taken; anything delivered now carries a
    // step number beyond the history and is not compared): a live subscription legitimately keeps
    // its pipeline alive, and over 10^8 runs that memory adds up
    rec.step.store(case.acts.len(), Ordering::Relaxed);
    drop(guards);
    for s in subs.iter().flatten() {
      if s.is_subscribed() {
        s.unsubscribe();
      }
    }
    let nested: Vec<Subscription<'static>> = rec.nested_subs.lock().unwrap().iter().map(|x| x.1.clone()).collect();
    for s in nested {
      if s.is_subscribed() {
        s.unsubscribe();
      }
    }
    drop(subs);
    *rec.built.lock().unwrap() = None;
    rec.pushers.lock().unwrap().clear();
    rec.root_subs.lock().unwrap().clear();
    rec.nested_subs.lock().unwrap().clear();
    drop(built_held);
  }));
  set_monitor_mode(false);
  if let Err(p) = r {
    if let Some(sd) = p.downcast_ref::<SelfDeadlock>() {
      tr.self_deadlock = Some(sd.what.clone());
    } else if let Some(l) = p.downcast_ref::<Livelock>() {
      tr.livelock = Some(format!("more than {} lock operations in one single-threaded run: a loop keeps spinning", l.ops));
    } else {
      tr.panic = Some(payload_to_string(&*p));
    }
  }
  tr.events = rec.log.lock().unwrap().clone();
  tr.root_live = root_live.lock().unwrap().clone();
  tr.inner_live = inner_live.lock().unwrap().clone();
  tr.src_alive = src_alive.lock().unwrap().clone();
  tr.self_unsub_marks = rec.unsub_marks.lock().unwrap().clone();
  tr.sub_snaps = registry.snaps.lock().unwrap().iter().map(|(a, b, c)| (*a, *b, c.clone(), vec![])).collect();
  registry.lists.lock().unwrap().clear();
  tr.held = held.lock().unwrap().clone();
  tr.n_sub = srcs.iter().map(|s| s.observers.lock().unwrap().len()).collect();
  tr.emitted = srcs.iter().map(|s| s.emitted.lock().unwrap().clone()).collect();
  tr.tap_log = tap_log.lock().unwrap().clone();
  for s in &srcs {
    tr.err_addrs.extend(s.err_addrs.lock().unwrap().iter().cloned());
  }
  if !opts.check_tokens {
    let inner: Vec<Subscription<'static>> = rec.inner_subs.lock().unwrap().drain(..).map(|x| x.1).collect();
    set_monitor_mode(true);
    let _ = catch_unwind(AssertUnwindSafe(|| {
      for s in &inner {
        s.unsubscribe();
      }
    }));
    set_monitor_mode(false);
  }
  if opts.check_tokens && tr.panic.is_none() && tr.self_deadlock.is_none() && tr.livelock.is_none() {
    // drop everything the caller holds: sources (and the observers they were handed),
    // inner subscriptions, the recorder's log stays (it holds no tokens)
    // inner observables (windows, groups) are subscriptions of their own: the
    // caller ends them too before it expects its callbacks to be released
    let inner: Vec<Subscription<'static>> = rec.inner_subs.lock().unwrap().drain(..).map(|x| x.1).collect();
    set_monitor_mode(true);
    let _ = catch_unwind(AssertUnwindSafe(|| {
      for s in &inner {
        s.unsubscribe();
      }
    }));
    set_monitor_mode(false);
    drop(inner);
    drop(srcs);
    tr.tokens_owned = toks.still_owned();
  }
  tr
}

pub fn run_ref(case: &Case) -> Trace {
  let mut tr = Trace::default();
  let mut w = RefWorld::new(case.srcs.clone());
  let n_roots = case
    .acts
    .iter()
    .filter_map(|a| match a {
      Act::Sub(r) => Some(*r + 1),
      Act::Nest { inner, .. } | Act::NestFromTap { inner } => Some(*inner + 1),
      _ => None,
    })
    .max()
    .unwrap_or(0);
  let mut roots: Vec<Option<usize>> = vec![None; n_roots];
  w.nest_pipeline = Some(case.pipeline.clone());
  for a in &case.acts {
    if let Act::Nest { outer, trig, inner } = a {
      w.nests.push((rec_id(*outer), *trig, rec_id(*inner), false));
    }
    if let Act::Feed { outer, trig, src, ev } = a {
      w.feeds.push((rec_id(*outer), *trig, *src, ev.clone(), false));
    }
    if let Act::SelfUnsub { outer, trig } = a {
      w.self_unsubs.push((rec_id(*outer), *trig, false));
    }
    if let Act::NestFromTap { inner } = a {
      w.nest_from_tap = Some((rec_id(*inner), false));
    }
  }
  for (step, act) in case.acts.iter().enumerate() {
    match act {
      Act::Sub(r) => roots[*r] = Some(w.subscribe_root(&case.pipeline, rec_id(*r))),
      Act::Emit(i, ev) => w.hot_emit(*i, ev.clone()),
      Act::Unsub(r) | Act::UsingDrop(r) | Act::UsingDropUnwinding(r) | Act::UnsubGuarded(r) => {
        if let Some(id) = roots[*r] {
          w.unsubscribe_root(id)
        }
      }
      Act::Nest { .. } => {}
      Act::Feed { .. } | Act::SelfUnsub { .. } | Act::NestFromTap { .. } => {}
      Act::PanicAt { .. } => panic!("MACHINERY: PanicAt has no reference semantics; reference-free oracles only"),
      Act::EmitCloneFeed(..) | Act::EmitFnFeed(..) => panic!("MACHINERY: EmitCloneFeed/EmitFnFeed have no reference semantics; reference-free oracles only"),
      Act::InnerUnsub(r, k) => {
        // only an inner observable the subscriber has been handed already can be unsubscribed
        if w.all.iter().any(|(rc, e)| *rc == rec_id(*r) && *e == Ev::N(D::Inner(*k))) {
          w.inner_unsubscribed.push(rec_id(*r) + *k)
        }
      }
    }
    for (rec, id) in w.root_of_rec.clone() {
      let r = (rec / 100 - 1) as usize;
      if r < roots.len() && roots[r].is_none() {
        roots[r] = Some(id);
      }
    }
    for (rec, ev) in w.out.drain(..) {
      tr.events.push(RecEv { step, rec, ev, err_addr: 0 });
    }
    tr.root_live.push(roots.iter().map(|r| r.map(|id| !w.root_done(id))).collect());
    tr.src_alive.push(w.srcs.iter().map(|s| s.insts.iter().map(|i| i.alive).collect()).collect());
    tr.src_lazy.push(w.srcs.iter().map(|s| s.insts.iter().map(|i| i.lazy).collect()).collect());
    tr.held.push(w.srcs.iter().map(|s| s.insts.iter().filter(|i| i.alive).count()).collect());
  }
  tr.sub_snaps = w.sub_snaps.clone();
  tr.n_sub = w.srcs.iter().map(|s| s.insts.len()).collect();
  tr.emitted = w.srcs.iter().map(|s| s.insts.iter().map(|i| i.emitted).collect()).collect();
  tr.tap_log = w.tap_log.clone();
  tr.hit_cap = w.hit_subscription_cap;
  tr
}

// -------------------------------------------------------------- comparison

#[derive(Clone, Debug)]
pub struct Mismatch {
  pub class: String,
  pub detail: String,
}

/// Functional comparison: per step and per recorder the delivered events must
/// be exactly the reference's.
pub fn compare_events(real: &Trace, refr: &Trace, n_steps: usize) -> Option<Mismatch> {
  let mut recs = real.recs();
  recs.extend(refr.recs());
  recs.sort();
  recs.dedup();
  for step in 0..n_steps {
    for r in &recs {
      let a = real.events_of(step, *r);
      let b = refr.events_of(step, *r);
      if a != b {
        let class = classify(&real.all_of(*r), &refr.all_of(*r), &a, &b);
        return Some(Mismatch {
          class,
          detail: format!("step {} recorder #{}: got [{}], reference [{}] | real: {} | reference: {}", step, r, show_evs(&a), show_evs(&b), real.show(), refr.show()),
        });
      }
    }
  }
  None
}

fn classify(real_all: &[Ev], ref_all: &[Ev], a: &[Ev], b: &[Ev]) -> String {
  let items = |v: &[Ev]| v.iter().filter(|e| !e.is_terminal()).cloned().collect::<Vec<_>>();
  let term = |v: &[Ev]| v.iter().find(|e| e.is_terminal()).cloned();
  if items(real_all) == items(ref_all) {
    match (term(real_all), term(ref_all)) {
      (None, Some(_)) => return "missing-terminal".into(),
      (Some(_), None) => return "unexpected-terminal".into(),
      (Some(x), Some(y)) if x != y => return "wrong-terminal".into(),
      _ => {}
    }
    if real_all == ref_all {
      return "wrong-timing".into();
    }
    return "wrong-order-or-timing".into();
  }
  let (ia, ib) = (items(a), items(b));
  if ia.len() > ib.len() && ia.starts_with(&ib) {
    return "extra-items".into();
  }
  if ia.len() < ib.len() && ib.starts_with(&ia) {
    return "missing-items".into();
  }
  "wrong-items".into()
}
