//! C11 — combinators fed from several threads conserve items and terminate exactly once.
use crate::tcommon::*;
use another_rxrust::prelude::*;
use rxverif_rt::exec::ExecEnd;
use rxverif_rt::explore::{Body, Check, Verdict};
use std::sync::Arc;

#[derive(Clone, Copy, Debug, PartialEq)]
enum Comb {
  Merge,
  FlatMap,
  Zip,
  Concat,
  Amb,
  /// a Subject fed by two producer threads, take(n) downstream
  SubjectTake,
}

fn comb_scn(comb: Comb, scripts: Vec<Vec<i64>>, take: Option<usize>, q: Option<u32>, t: Option<u32>) -> Scn {
  let name = format!(
    "c11/{:?} {}{}",
    comb,
    scripts.iter().map(|s| format!("P{:?}+C", s)).collect::<Vec<_>>().join("||"),
    take.map(|n| format!(" .take({})", n)).unwrap_or_default()
  );
  let family = format!("{:?}", comb).to_lowercase();
  let mut sc = scn(&name, &family, q, t, move || {
    let rec = Rec::new();
    let causes = Causes::new();
    let (rec2, causes2, scripts2) = (rec.clone(), causes.clone(), scripts.clone());
    let body: Body = Box::new(move || {
      let labels = ["a", "b", "c"];
      let srcs: Vec<Observable<'static, i64>> = scripts2
        .iter()
        .enumerate()
        .map(|(i, sc)| {
          let mut e: Vec<Emit<i64>> = sc.iter().map(|v| Emit::N(*v)).collect();
          e.push(Emit::C);
          threaded_source(labels[i], e, vec![], causes2.clone())
        })
        .collect();
      let o: Observable<'static, i64> = match comb {
        Comb::Merge => srcs[0].merge(&srcs[1..]),
        Comb::Concat => srcs[0].concat(&srcs[1..]),
        Comb::Amb => srcs[0].amb(&srcs[1..]),
        Comb::Zip => srcs[0].zip(&srcs[1..]).map(|v| v.iter().fold(0, |a, x| a * 100 + x)),
        Comb::FlatMap => {
          let inner = srcs.clone();
          observables::from_iter(0..srcs.len()).flat_map(move |i| inner[i].clone())
        }
        Comb::SubjectTake => {
          let sbj = subjects::Subject::<i64>::new();
          let o = match take {
            Some(n) => sbj.observable().take(n),
            None => sbj.observable(),
          };
          // subscribe first, then start the producers: nothing is missed legitimately
          let _sub = rec2.sub_i64(&o);
          for (i, sc) in scripts2.iter().enumerate() {
            let (s, sc, c) = (sbj.clone(), sc.clone(), causes2.clone());
            let lbl = labels[i];
            another_rxrust::vstd::thread::spawn(move || {
              for v in sc {
                c.mark(&format!("{}:n{}", lbl, v));
                s.next(v);
              }
            });
          }
          return;
        }
      };
      let o = match take {
        Some(n) => o.take(n),
        None => o,
      };
      let _sub = rec2.sub_i64(&o);
    });
    let scripts3 = scripts.clone();
    let check: Check = Box::new(move |e: &ExecEnd| {
      let mut v = base_violations(e, &[]);
      let got = rec.items();
      let terms = rec.terminals();
      let all: Vec<i64> = scripts3.iter().flatten().cloned().collect();
      if terms.len() > 1 {
        v.push(viol("terminal-twice", format!("saw {}", rec.short())));
      }
      if terms.iter().any(|t| matches!(t.k, EvK::Error(_))) {
        v.push(viol("unexpected-error", format!("saw {}", rec.short())));
      }
      // terminal after the last item. Without a terminating operator the statement promises exactly that
      // (every input completes after its last `next` has returned). With `take(n)` downstream the
      // completion is forced by one thread while another may already be inside `Observer::next` - past the
      // gate, not yet in the callback; for that the promise is C19's: no callback for an item whose
      // delivery *started* after the terminal callback had returned
      if let Some(t) = terms.first() {
        if take.is_none() {
          if rec.events().iter().any(|x| matches!(x.k, EvK::Next(_)) && x.enter > t.enter) {
            v.push(viol("item-after-complete", format!("saw {}", rec.short())));
          }
        } else {
          for x in contract_violations(&rec, &causes) {
            if x.class == "event-after-terminal" {
              v.push(viol("item-after-complete", x.detail.clone()));
            }
          }
        }
      }
      if let Some(n) = take {
        if got.len() > n {
          v.push(viol("take-delivered-too-many", format!("take({}) delivered {:?}", n, got)));
        }
      }
      // nothing invented, nothing twice
      let mut sorted = got.clone();
      sorted.sort();
      let mut dedup = sorted.clone();
      dedup.dedup();
      let expected_items: Vec<i64> = match comb {
        Comb::Zip => {
          let n = scripts3.iter().map(|s| s.len()).min().unwrap_or(0);
          (0..n).map(|i| scripts3.iter().fold(0, |a, s| a * 100 + s[i])).collect()
        }
        _ => all.clone(),
      };
      if dedup.len() != sorted.len() {
        v.push(viol("duplicate-item", format!("got {:?}", got)));
      }
      if got.iter().any(|x| !expected_items.contains(x)) {
        v.push(viol("unknown-item", format!("got {:?}, possible {:?}", got, expected_items)));
      }
      let complete_expected = comb != Comb::SubjectTake || take.map_or(false, |n| n <= all.len());
      match (comb, take) {
        (Comb::Amb, None) => {
          let from: Vec<usize> = (0..scripts3.len()).filter(|i| got.iter().any(|x| scripts3[*i].contains(x))).collect();
          if from.len() > 1 {
            v.push(viol("amb-mixed-inputs", format!("got {:?}", got)));
          }
          if from.len() == 1 && got != scripts3[from[0]] {
            v.push(viol("amb-winner-incomplete", format!("got {:?}, winner's script {:?}", got, scripts3[from[0]])));
          }
        }
        (Comb::Amb, Some(_)) => {
          let from: Vec<usize> = (0..scripts3.len()).filter(|i| got.iter().any(|x| scripts3[*i].contains(x))).collect();
          if from.len() > 1 {
            v.push(viol("amb-mixed-inputs", format!("got {:?}", got)));
          }
        }
        (_, None) => {
          let mut want = expected_items.clone();
          want.sort();
          if sorted != want {
            v.push(viol("items-not-conserved", format!("got {:?}, want the multiset {:?}", got, want)));
          }
        }
        (_, Some(_)) => {
          // the statement bounds take(n) from above only ("never delivers more
          // than n items"); fewer items are reported in the evidence, not as a violation
        }
      }
      // each input's items in that input's order
      if comb != Comb::Zip {
        for sc in &scripts3 {
          let mine: Vec<i64> = got.iter().cloned().filter(|x| sc.contains(x)).collect();
          let mut pos = 0;
          for x in &mine {
            match sc[pos..].iter().position(|y| y == x) {
              Some(p) => pos += p + 1,
              None => {
                v.push(viol("per-input-order", format!("got {:?}, input script {:?}", got, sc)));
                break;
              }
            }
          }
        }
      }
      if comb == Comb::Concat && take.is_none() && got != all {
        v.push(viol("concat-order", format!("got {:?}, want {:?}", got, all)));
      }
      if complete_expected && terms.is_empty() {
        v.push(viol("missing-complete", format!("saw {} ; threads {}", rec.short(), thread_summary(e))));
      }
      Verdict { outcome: rec.short(), violations: v }
    });
    (body, check)
  });
  if comb == Comb::Concat {
    // concat's producers run strictly one after the other: no conflicts to order
    sc.min_conflicts = 0;
  }
  sc
}

pub fn scenarios() -> Vec<Scn> {
  let two = vec![vec![1, 2], vec![3, 4]];
  let three = vec![vec![1, 2], vec![3, 4], vec![5, 6]];
  let mut v = vec![];
  for c in [Comb::Merge, Comb::FlatMap, Comb::Zip, Comb::Concat, Comb::Amb] {
    v.push(comb_scn(c, two.clone(), None, Some(2), Some(3)));
    v.push(comb_scn(c, two.clone(), Some(1), if c == Comb::Merge || c == Comb::Zip { Some(2) } else { None }, Some(3)));
    v.push(comb_scn(c, two.clone(), Some(2), Some(1), Some(2)));
    v.push(comb_scn(c, three.clone(), None, Some(1), Some(2)));
  }
  v.push(comb_scn(Comb::SubjectTake, two.clone(), Some(2), Some(2), Some(3)));
  v.push(comb_scn(Comb::SubjectTake, two.clone(), Some(1), Some(2), Some(3)));
  v.push(comb_scn(Comb::SubjectTake, two.clone(), Some(3), None, Some(3)));
  let _ = Arc::new(0);
  v
}
