//! C13 — connectable observables: every call sequence up to a bounded length
//! over {subscribe_i, unsubscribe_i, connect, disconnect, source emits v,
//! source completes, source errors} on publish / ref_count / replay, with a
//! hot manual source and with cold sources that emit synchronously inside
//! connect / first-subscribe; compared stepwise with reference machines.
use crate::json::{obj, s, J};
use crate::report::{Finding, Report};
use crate::s_val::{show_evs, Ev};
use crate::tcommon::{err, err_code, workers};
use another_rxrust::prelude::*;
use rxverif_rt::exec::{payload_to_string, set_monitor_mode, SelfDeadlock};
use std::collections::BTreeMap;
use std::panic::{catch_unwind, AssertUnwindSafe};
use std::sync::atomic::{AtomicUsize, Ordering};
use std::sync::{Arc, Mutex};

#[derive(Clone, Copy, Debug, PartialEq)]
pub enum Kind {
  Publish,
  RefCount,
  Replay,
}

#[derive(Clone, Debug, PartialEq)]
pub enum Call {
  /// subscribe observer i through `.take(k)`: it leaves by itself at its k-th item, possibly in the middle of a synchronous emission
  SubTake(usize, usize),
  /// publish: connect() again without a disconnect in between - enumerated over cold sources only and
  /// evaluated only where the source has terminated by itself inside the previous connect()
  Reconnect,
  Sub(usize),
  Unsub(usize),
  Connect,
  Disconnect,
  Emit(i64),
  SrcComplete,
  SrcError,
}

#[derive(Clone, Debug, PartialEq)]
pub enum Src {
  Hot,
  /// emits the script synchronously at every subscription (polite: stops when unsubscribed)
  Cold(Vec<Ev>),
}

fn show(h: &[Call]) -> String {
  h.iter()
    .map(|c| match c {
      Call::SubTake(i, k) => format!("subscribe_{}.take({})", i, k),
      Call::Sub(i) => format!("subscribe_{}", i),
      Call::Unsub(i) => format!("unsubscribe_{}", i),
      Call::Connect => "connect".into(),
      Call::Reconnect => "connect (again: the source had terminated by itself)".into(),
      Call::Disconnect => "disconnect".into(),
      Call::Emit(v) => format!("emit({})", v),
      Call::SrcComplete => "source-complete".into(),
      Call::SrcError => "source-error".into(),
    })
    .collect::<Vec<_>>()
    .join(", ")
}

struct St {
  n_sub: usize,
  live: Vec<bool>,
  plain: Vec<bool>,
  connected: bool,
  src_done: bool,
}

fn rec(cur: &mut Vec<Call>, st: &mut St, kind: Kind, hot: bool, max_len: usize, emit_from: usize, out: &mut dyn FnMut(&[Call])) {
  if cur.len() > emit_from {
    out(cur);
  }
  if cur.len() >= max_len {
    return;
  }
  // after the source's terminal the inner subject is terminated: what a late
  // subscriber of a plain Subject gets is not fixed -> only unsubscribes follow
  if !st.src_done && st.n_sub < 3 {
    // take(k) subscribers not for replay(): whether a subscriber that ends during the
    // hand-over of the history had already connected the source, and how much of a
    // synchronous emission the history keeps after it left, is not fixed by the statement
    // ... unless a plain subscriber is present throughout its arrival: the source is connected
    // already and stays so, the take(k) subscriber only has to be handed the history and leave
    let plain_live = (0..st.n_sub).any(|i| st.live[i] && st.plain[i]);
    for variant in 0..(if kind == Kind::Replay && !plain_live { 1 } else { 3usize }) {
      cur.push(if variant == 0 { Call::Sub(st.n_sub) } else { Call::SubTake(st.n_sub, variant) });
      st.n_sub += 1;
      st.live.push(true);
      st.plain.push(variant == 0);
      rec(cur, st, kind, hot, max_len, emit_from, out);
      st.plain.pop();
      st.live.pop();
      st.n_sub -= 1;
      cur.pop();
    }
  }
  for i in 0..st.n_sub {
    if st.live[i] {
      cur.push(Call::Unsub(i));
      st.live[i] = false;
      rec(cur, st, kind, hot, max_len, emit_from, out);
      st.live[i] = true;
      cur.pop();
    }
  }
  if kind == Kind::Publish && !st.src_done {
    if !st.connected {
      cur.push(Call::Connect);
      st.connected = true;
      rec(cur, st, kind, hot, max_len, emit_from, out);
      st.connected = false;
      cur.pop();
    } else {
      cur.push(Call::Disconnect);
      st.connected = false;
      rec(cur, st, kind, hot, max_len, emit_from, out);
      st.connected = true;
      cur.pop();
      if !hot {
        cur.push(Call::Reconnect);
        rec(cur, st, kind, hot, max_len, emit_from, out);
        cur.pop();
      }
    }
  }
  if hot && !st.src_done {
    for v in [1, 2] {
      cur.push(Call::Emit(v));
      rec(cur, st, kind, hot, max_len, emit_from, out);
      cur.pop();
    }
    for t in [Call::SrcComplete, Call::SrcError] {
      cur.push(t);
      st.src_done = true;
      rec(cur, st, kind, hot, max_len, emit_from, out);
      st.src_done = false;
      cur.pop();
    }
  }
}

/// every history of length 1..=max_len (stored)
pub fn histories(kind: Kind, hot: bool, max_len: usize) -> Vec<Vec<Call>> {
  let mut out = vec![];
  rec(&mut vec![], &mut St { n_sub: 0, live: vec![], plain: vec![], connected: false, src_done: false }, kind, hot, max_len, 0, &mut |h| out.push(h.to_vec()));
  out
}

/// every proper extension of `prefix` up to max_len, streamed to `sink`
pub fn extensions(prefix: &[Call], kind: Kind, hot: bool, max_len: usize, sink: &mut dyn FnMut(&[Call])) {
  let mut st = St { n_sub: 0, live: vec![], plain: vec![], connected: false, src_done: false };
  for c in prefix {
    match c {
      Call::Sub(_) | Call::SubTake(..) => {
        st.n_sub += 1;
        st.live.push(true);
        st.plain.push(matches!(c, Call::Sub(_)));
      }
      Call::Unsub(i) => st.live[*i] = false,
      Call::Connect | Call::Reconnect => st.connected = true,
      Call::Disconnect => st.connected = false,
      Call::SrcComplete | Call::SrcError => st.src_done = true,
      Call::Emit(_) => {}
    }
  }
  let mut cur = prefix.to_vec();
  rec(&mut cur, &mut st, kind, hot, max_len, prefix.len(), sink);
}

/// reference result: per step per observer expected events; per step the
/// number of live source subscriptions; total source subscriptions
struct RefOut {
  exp: Vec<Vec<Vec<Ev>>>,
  src_live: Vec<usize>,
  src_total: usize,
  src_total_at: Vec<usize>,
  /// from this step on the reference makes no claim (not fixed by the statement)
  valid_until: usize,
}

struct RefState {
  kind: Kind,
  live: Vec<usize>,
  quota: Vec<Option<usize>>,
  got: Vec<usize>,
  history: Vec<i64>,
  subject_terminal: Option<Ev>,
  connected: bool,
  src_total: usize,
}
impl RefState {
  /// deliver a source event into the shared subject
  fn deliver(&mut self, ev: &Ev, exp: &mut Vec<Vec<Ev>>) {
    if self.subject_terminal.is_some() {
      return;
    }
    match ev {
      Ev::N(d) => {
        self.history.push(d.i());
        for o in self.live.clone() {
          self.give(o, ev.clone(), exp);
        }
      }
      t => {
        self.subject_terminal = Some(t.clone());
        for o in self.live.clone() {
          exp[o].push(t.clone());
        }
        self.live.clear();
        self.connected = false;
      }
    }
  }
  /// hand one item to observer o, honouring its take(k)
  fn give(&mut self, o: usize, ev: Ev, exp: &mut Vec<Vec<Ev>>) {
    if !self.live.contains(&o) {
      return;
    }
    exp[o].push(ev);
    self.got[o] += 1;
    if let Some(k) = self.quota[o] {
      if self.got[o] >= k {
        exp[o].push(Ev::C);
        self.leave(o);
      }
    }
  }
  fn leave(&mut self, o: usize) {
    let was = self.live.contains(&o);
    self.live.retain(|x| *x != o);
    if self.kind != Kind::Publish && was && self.live.is_empty() {
      self.connected = false;
    }
  }
  fn connect(&mut self, src: &Src, exp: &mut Vec<Vec<Ev>>) {
    if self.connected {
      return;
    }
    self.connected = true;
    self.src_total += 1;
    if let Src::Cold(script) = src {
      for ev in script {
        if !self.connected {
          break;
        }
        self.deliver(ev, exp);
        if ev.is_terminal() {
          self.connected = false;
        }
      }
    }
  }
}

fn reference(kind: Kind, src: &Src, h: &[Call]) -> RefOut {
  let n_obs = h.iter().filter(|c| matches!(c, Call::Sub(_) | Call::SubTake(..))).count();
  let mut st = RefState {
    kind,
    live: vec![],
    quota: vec![None; n_obs],
    got: vec![0; n_obs],
    history: vec![],
    subject_terminal: None,
    connected: false,
    src_total: 0,
  };
  let mut exp_all = vec![];
  let mut src_live = vec![];
  let mut src_total_at = vec![];
  let mut valid_until = h.len();
  for (si, c) in h.iter().enumerate() {
    let mut exp: Vec<Vec<Ev>> = vec![vec![]; n_obs];
    match c {
      Call::Sub(_) | Call::SubTake(..) => {
        let (i, q) = match c {
          Call::Sub(i) => (*i, None),
          Call::SubTake(i, k) => (*i, Some(*k)),
          _ => unreachable!(),
        };
        st.quota[i] = q;
        if let Some(t) = st.subject_terminal.clone() {
          if kind == Kind::Replay {
            st.live.push(i);
            for v in st.history.clone() {
              st.give(i, Ev::n(v), &mut exp);
            }
            if st.live.contains(&i) {
              exp[i].push(t);
              st.live.retain(|x| *x != i);
            }
          } else if valid_until == h.len() {
            valid_until = si;
          }
        } else {
          st.live.push(i);
          if kind == Kind::Replay {
            for v in st.history.clone() {
              st.give(i, Ev::n(v), &mut exp);
            }
          }
          if kind != Kind::Publish && st.live.len() == 1 && st.live.contains(&i) {
            st.connect(src, &mut exp);
          } else if kind != Kind::Publish && st.live.is_empty() {
            // it left again while being handed the history: nothing to connect for
          }
        }
      }
      Call::Unsub(i) => st.leave(*i),
      Call::Connect | Call::Reconnect => st.connect(src, &mut exp),
      Call::Disconnect => st.connected = false,
      Call::Emit(v) => {
        if st.connected {
          st.deliver(&Ev::n(*v), &mut exp);
        }
      }
      Call::SrcComplete => {
        if st.connected {
          st.deliver(&Ev::C, &mut exp);
        }
      }
      Call::SrcError => {
        if st.connected {
          st.deliver(&Ev::E(7), &mut exp);
        }
      }
    }
    exp_all.push(exp);
    src_live.push(if st.connected { 1 } else { 0 });
    src_total_at.push(st.src_total);
  }
  RefOut { exp: exp_all, src_live, src_total: st.src_total, src_total_at, valid_until }
}

struct RealOut {
  per_step: Vec<Vec<Vec<Ev>>>,
  src_live: Vec<usize>,
  src_total: usize,
  fault: Option<String>,
}

fn run_real(kind: Kind, src: &Src, h: &[Call], drop_handle: bool) -> RealOut {
  let n_obs = h.iter().filter(|c| matches!(c, Call::Sub(_) | Call::SubTake(..))).count();
  let log: Arc<Mutex<Vec<(usize, usize, Ev)>>> = Arc::new(Mutex::new(vec![]));
  let step = Arc::new(AtomicUsize::new(0));
  let src_obs: Arc<Mutex<Vec<Observer<'static, i64>>>> = Arc::new(Mutex::new(vec![]));
  let src_live = Arc::new(Mutex::new(vec![]));
  set_monitor_mode(true);
  let so = src_obs.clone();
  let src2 = src.clone();
  let r = catch_unwind(AssertUnwindSafe(|| {
    let source: Observable<'static, i64> = Observable::create(move |s: Observer<'static, i64>| {
      so.lock().unwrap().push(s.clone());
      if let Src::Cold(script) = &src2 {
        for ev in script {
          if !s.is_subscribed() {
            break;
          }
          match ev {
            Ev::N(d) => s.next(d.i()),
            Ev::E(k) => s.error(err(*k)),
            Ev::C => s.complete(),
          }
        }
      }
    });
    enum Conn {
      P(publish::Publish<'static, i64>),
      R(ref_count::RefCount<'static, i64>),
      Y(replay::Replay<'static, i64>),
    }
    let mut conn = Some(match kind {
      Kind::Publish => Conn::P(source.publish()),
      Kind::RefCount => Conn::R(source.ref_count()),
      Kind::Replay => Conn::Y(source.replay()),
    });
    fn observable(conn: &Option<Conn>) -> Observable<'static, i64> {
      match conn.as_ref().expect("the handle is only dropped after the last subscribe") {
        Conn::P(p) => p.observable(),
        Conn::R(p) => p.observable(),
        Conn::Y(p) => p.observable(),
      }
    }
    // ref_count()/replay(): the caller drops the handle (and every Observable obtained from it) once the
    // last subscriber of the history has subscribed - the subscribers alone keep the sharing alive
    let last_sub = h.iter().rposition(|c| matches!(c, Call::Sub(_) | Call::SubTake(..)));
    let mut subs: Vec<Option<Subscription<'static>>> = vec![None; n_obs];
    let mut connection: Option<Subscription<'static>> = None;
    for (si, c) in h.iter().enumerate() {
      step.store(si, Ordering::Relaxed);
      match c {
        Call::Sub(_) | Call::SubTake(..) => {
          let (l1, l2, l3) = (log.clone(), log.clone(), log.clone());
          let (s1, s2, s3) = (step.clone(), step.clone(), step.clone());
          let (i, o) = match c {
            Call::SubTake(i, k) => (*i, observable(&conn).take(*k)),
            Call::Sub(i) => (*i, observable(&conn)),
            _ => unreachable!(),
          };
          subs[i] = Some(o.subscribe(
            move |x| l1.lock().unwrap().push((s1.load(Ordering::Relaxed), i, Ev::n(x))),
            move |e| l2.lock().unwrap().push((s2.load(Ordering::Relaxed), i, Ev::E(err_code(&e)))),
            move || l3.lock().unwrap().push((s3.load(Ordering::Relaxed), i, Ev::C)),
          ));
        }
        Call::Unsub(i) => {
          if let Some(s) = &subs[*i] {
            s.unsubscribe()
          }
        }
        Call::Connect | Call::Reconnect => {
          if let Some(Conn::P(p)) = &conn {
            connection = Some(p.connect());
          }
        }
        Call::Disconnect => {
          if let Some(c) = &connection {
            c.unsubscribe()
          }
        }
        Call::Emit(_) | Call::SrcComplete | Call::SrcError => {
          // the hot source delivers to every observer it was handed and that still listens
          let os: Vec<Observer<'static, i64>> = src_obs.lock().unwrap().clone();
          for o in os {
            if o.is_subscribed() {
              match c {
                Call::Emit(v) => o.next(*v),
                Call::SrcComplete => o.complete(),
                _ => o.error(err(7)),
              }
            }
          }
        }
      }
      if drop_handle && kind != Kind::Publish && Some(si) == last_sub {
        conn = None;
      }
      let n = src_obs.lock().unwrap().iter().filter(|o| o.is_subscribed()).count();
      src_live.lock().unwrap().push(n);
    }
    // end what is still live after the last probe (a live subscription legitimately keeps its
    // pipeline alive; over 10^7..10^8 histories that memory adds up)
    step.store(h.len(), Ordering::Relaxed);
    for s in subs.iter().flatten() {
      s.unsubscribe();
    }
    if let Some(c) = &connection {
      c.unsubscribe();
    }
  }));
  set_monitor_mode(false);
  let fault = match r {
    Ok(()) => None,
    Err(p) => Some(match p.downcast_ref::<SelfDeadlock>() {
      Some(sd) => format!("self-deadlock: {}", sd.what),
      None => format!("panic: {}", payload_to_string(&*p)),
    }),
  };
  let mut per_step = vec![vec![vec![]; n_obs]; h.len()];
  for (st, o, e) in log.lock().unwrap().iter() {
    if *st < h.len() {
      per_step[*st][*o].push(e.clone());
    }
  }
  let sl = src_live.lock().unwrap().clone();
  let total = src_obs.lock().unwrap().len();
  RealOut { per_step, src_live: sl, src_total: total, fault }
}

pub fn check(tier: &str) -> Report {
  let th = tier == "thorough";
  let mut r = Report::new("C13", tier, "S");
  r.assumptions = vec![
    "reference = shared-subject machines of DESIGN.md Appendix A: publish connects on connect(), ref_count/replay on the 0->1 subscriber transition and disconnect on 1->0; at most one live source subscription".into(),
    "connect() is only issued while disconnected; after the source's terminal only unsubscribes follow (a plain Subject's treatment of later subscribers is not fixed)".into(),
  ];
  let colds: Vec<Src> = vec![
    Src::Cold(vec![Ev::n(1), Ev::C]),
    Src::Cold(vec![Ev::n(1), Ev::n(2), Ev::C]),
    Src::Cold(vec![Ev::n(1), Ev::E(7)]),
    Src::Cold(vec![Ev::C]),
    Src::Cold(vec![Ev::n(1), Ev::n(2)]),
    Src::Cold(vec![]),
  ];
  // roots = all histories of length <= 3 (stored); each root of length 3 is expanded on the fly
  const ROOT_LEN: usize = 3;
  let mut work: Vec<(Kind, Src, bool, usize, Arc<Vec<Vec<Call>>>)> = vec![];
  for kind in [Kind::Publish, Kind::RefCount, Kind::Replay] {
    let hot_len = if th { 9 } else { 7 };
    let cold_len = if th { 9 } else { 8 };
    work.push((kind, Src::Hot, true, hot_len, Arc::new(histories(kind, true, ROOT_LEN))));
    let hc = Arc::new(histories(kind, false, ROOT_LEN));
    for c in &colds {
      work.push((kind, c.clone(), false, cold_len, hc.clone()));
    }
  }
  let findings: Mutex<BTreeMap<String, (String, u64)>> = Mutex::new(BTreeMap::new());
  let stats = Mutex::new((0u64, 0u64, 0u64));
  let total_hist = std::sync::atomic::AtomicU64::new(0);
  let sample_hist: Mutex<Vec<String>> = Mutex::new(vec![]);
  for (kind, src, hot, max_len, roots) in &work {
    let next = AtomicUsize::new(0);
    std::thread::scope(|sc| {
      for _ in 0..workers() {
        sc.spawn(|| {
          let mut local: BTreeMap<String, (String, u64)> = BTreeMap::new();
          let (mut runs, mut steps, mut nontriv) = (0u64, 0u64, 0u64);
          let mut eval = |h: &[Call]| {
            if h.contains(&Call::Reconnect) && !matches!(src, Src::Cold(sc) if sc.last().map_or(false, |e| e.is_terminal())) {
              // a second connect() while the first connection is live: not fixed by the statement
              return;
            }
            let exp = reference(*kind, src, h);
            for drop_handle in [false, true] {
            if drop_handle && *kind == Kind::Publish {
              continue;
            }
            let real = run_real(*kind, src, h, drop_handle);
            runs += 1;
            steps += h.len() as u64;
            let name = format!("{:?}/{}", kind, if *src == Src::Hot { "hot-source" } else { "cold-source" }).to_lowercase();
            let mut add = |class: &str, detail: String| {
              let e = local.entry(format!("{}/{}", name, class)).or_insert((format!("{} | source {:?} | history: [{}]{}", detail, src, show(h), if drop_handle { " | the connectable handle was dropped after the last subscribe" } else { "" }), 0));
              e.1 += 1;
            };
            if let Some(f) = &real.fault {
              add(if f.starts_with("self") { "self-deadlock" } else { "panic" }, f.clone());
              continue;
            }
            if exp.exp.iter().flatten().any(|v| !v.is_empty()) {
              nontriv += 1;
            }
            'cmp: for st in 0..h.len().min(exp.valid_until) {
              for o in 0..exp.exp[st].len() {
                if real.per_step[st][o] != exp.exp[st][o] {
                  let (g, w) = (&real.per_step[st][o], &exp.exp[st][o]);
                  let connecting = matches!(h[st], Call::Sub(_)) && exp.src_total_at[st] > if st > 0 { exp.src_total_at[st - 1] } else { 0 } && *kind == Kind::Replay && *src != Src::Hot;
                  let dup_of_history = g.len() > w.len() && g.starts_with(w) && {
                    let items: Vec<Ev> = w.iter().filter(|e| !e.is_terminal()).cloned().collect();
                    let extra: Vec<Ev> = g[w.len()..].iter().filter(|e| !e.is_terminal()).cloned().collect();
                    !items.is_empty() && (extra == items || items.ends_with(&extra) || extra.ends_with(&items))
                  };
                  let class = if connecting && dup_of_history {
                    "connecting-subscriber-gets-synchronous-items-twice"
                  } else if g.len() > w.len() { "extra-events" } else if g.len() < w.len() { "missing-events" } else { "wrong-events" };
                  add(class, format!("step {} ({:?}): subscriber {} got [{}], reference [{}]", st, h[st], o, show_evs(g), show_evs(w)));
                  break 'cmp;
                }
              }
              if real.src_live[st] != exp.src_live[st] {
                let class = if real.src_live[st] > exp.src_live[st] { "source-still-subscribed" } else { "source-not-subscribed" };
                add(class, format!("after step {} ({:?}) the source has {} live subscription(s), reference {}", st, h[st], real.src_live[st], exp.src_live[st]));
                break 'cmp;
              }
            }
            if exp.valid_until == h.len() && real.src_total != exp.src_total {
              add("source-subscription-count", format!("the source was subscribed {} time(s), reference {}", real.src_total, exp.src_total));
            }
            }
          };
          loop {
            let i = next.fetch_add(1, Ordering::Relaxed);
            if i >= roots.len() {
              break;
            }
            let root = &roots[i];
            eval(root);
            if root.len() == ROOT_LEN && *max_len > ROOT_LEN {
              extensions(root, *kind, *hot, *max_len, &mut |h| eval(h));
            }
            if i == roots.len() / 2 {
              let mut sh = sample_hist.lock().unwrap();
              if sh.len() < 3 {
                sh.push(format!("{:?}, {} source, history: [{}]", kind, if *hot { "hot" } else { "cold" }, show(root)));
              }
            }
          }
          total_hist.fetch_add(runs, Ordering::Relaxed);
          let mut g = findings.lock().unwrap();
          for (k, v) in local {
            let e = g.entry(k).or_insert((v.0, 0));
            e.1 += v.1;
          }
          let mut s = stats.lock().unwrap();
          s.0 += runs;
          s.1 += steps;
          s.2 += nontriv;
        });
      }
    });
  }
  let total_hist = total_hist.load(Ordering::Relaxed) as usize;
  let (runs, steps, nontriv) = *stats.lock().unwrap();
  r.traces = runs;
  r.transitions = steps;
  r.states = steps + runs;
  for (k, (d, n)) in findings.into_inner().unwrap() {
    r.add_finding(Finding { key: k, detail: d.clone(), replay: obj(vec![("engine", s("S")), ("detail", s(d))]), count: n });
  }
  for x in sample_hist.into_inner().unwrap() {
    r.samples.push(s(x));
  }
  r.extra.push(("histories".into(), J::I(total_hist as i64)));
  r.extra.push(("nontrivial_runs".into(), J::I(nontriv as i64)));
  r.extra.push(("explanation".into(), s("states = nodes of the call-sequence tree visited; transitions = calls executed on fresh real publish/ref_count/replay objects; every run is compared stepwise (per subscriber events, live source subscriptions) with the reference machine")));
  println!("  histories={} runs={} calls={}", total_hist, runs, steps);
  r
}
