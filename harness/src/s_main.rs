//! Engine S: per-property families (what is enumerated for C01–C06, C14, C17).
use crate::json::{s, J};
use crate::report::Report;
use crate::s_ops::*;
use crate::s_props::*;
use crate::s_ref::{LibSrc, SrcKind};
use crate::s_run::{Act, Trig};
use crate::s_val::*;
use std::sync::atomic::AtomicBool;
use std::sync::Arc;

fn s_assumptions() -> Vec<String> {
  vec![
    "reference semantics = DESIGN.md Appendix A with the conventions of §6 (pinned by the crate's asserting tests / implementation_status.md)".into(),
    "single-threaded; the facade runs in monitor mode, so a same-thread lock re-acquisition is reported as a self-deadlock instead of hanging".into(),
    "bounded: the listed operator catalogue, nesting depth, script alphabet/length and history shapes; every member of that space is run on fresh real objects".into(),
  ]
}

fn thorough(tier: &str) -> bool {
  tier == "thorough"
}

/// worlds for single-source pipelines: cold (whole run inside subscribe) and
/// hot (stepwise, so that *when* an operator emits/completes is visible)
fn c02_worlds(max_items: usize, values: &[i64]) -> Vec<World> {
  let mut w = vec![];
  for sc in wf_scripts(values, max_items, &[Ending::Complete, Ending::Error]) {
    w.push(cold_world(sc, true));
  }
  for sc in wf_scripts(values, max_items, &[Ending::Complete, Ending::Error, Ending::Silent]) {
    w.push(hot_world(&sc));
  }
  w
}

fn lib_worlds(n_subs: usize) -> Vec<World> {
  LibSrc::all().into_iter().map(|l| World { srcs: vec![SrcKind::Lib(l)], acts: (0..n_subs).map(Act::Sub).collect() }).collect()
}

fn is_hot_world(w: &World) -> bool {
  // not Behavior/ReplaySubject: they emit synchronously at subscribe time
  w.srcs.iter().all(|s| matches!(s, SrcKind::Hot | SrcKind::Subject))
}

/// ref_count() (every world) and replay() (hot sources only) as ordinary pipeline stages under one subscriber
fn connectable_families(worlds: &[World], oracles: Vec<Oracle>) -> Vec<(Family, usize)> {
  let single_sub = |w: &&World| w.acts.iter().filter(|a| matches!(a, Act::Sub(_))).count() == 1 && !w.acts.iter().any(|a| matches!(a, Act::Nest { .. }));
  let all: Vec<World> = worlds.iter().filter(single_sub).cloned().collect();
  let hot: Vec<World> = all.iter().filter(|w| is_hot_world(w)).cloned().collect();
  // ref_count() in the middle: one operator below it (whose closure the connection keeps alive), one
  // above it that emits at subscribe time or passes through, and on top one that ends by itself
  let mut deep = vec![];
  for below in reduced_ops() {
    for mid in [Op::StartWith(vec![8]), Op::Map(MapF::Inc), Op::DefaultIfEmpty(5)] {
      for top in [Op::Take(1), Op::Take(2), Op::First, Op::Contains(8)] {
        deep.push(Node::op(top.clone(), Node::op(mid.clone(), Node::op(Op::RefCount, Node::op(below.clone(), Node::Src(0))))));
      }
    }
  }
  let deep_worlds: Vec<World> = all.iter().step_by(3).cloned().collect();
  vec![
    (Family { name: "ref_count() in the middle of a depth-4 pipeline that ends by itself".into(), pipelines: deep, worlds: Arc::new(deep_worlds), oracles: oracles.clone() }, 4),
    (Family { name: "ref_count() as a pipeline stage (one subscriber), alone and with one operator below / above".into(), pipelines: connectable_pipelines(false), worlds: Arc::new(all), oracles: oracles.clone() }, 2),
    (Family { name: "replay() as a pipeline stage over hot sources (one subscriber), alone and with one operator above".into(), pipelines: connectable_pipelines(true), worlds: Arc::new(hot), oracles }, 2),
  ]
}

/// feedback on the same thread: a callback of the subscriber (at its 1st/2nd item, at its
/// terminal) pushes a further event into a hot source the pipeline is fed from. Real run only
/// (reference-free oracles): the contract must hold whatever arrives *while a callback runs*.
fn feedback_families(th: bool, last_pos: &[Op], oracles: Vec<Oracle>) -> Vec<(Family, usize)> {
  feedback_families_x(th, last_pos, oracles, false)
}

/// `full`: terminals are fed back and terminal callbacks feed back even under a functional oracle
fn feedback_families_x(th: bool, last_pos: &[Op], oracles: Vec<Oracle>, full: bool) -> Vec<(Family, usize)> {
  // with a functional oracle only items fed from item callbacks: which of two events wins when a
  // terminal is pushed *during* the delivery of an operator's last item is not fixed by any statement
  // (take emits then cancels, all cancels then emits; both are fine) - the contract oracle takes it all
  let needs_reference = oracles.iter().any(|o| matches!(o, Oracle::Functional | Oracle::Teardown | Oracle::Independence));
  let restricted = needs_reference && !full;
  let trigs: Vec<Trig> = if restricted { vec![Trig::Item(1), Trig::Item(2)] } else { vec![Trig::Item(1), Trig::Item(2), Trig::Complete, Trig::Error] };
  // (fed items: a fresh value, and the two values the scripts are made of - an operator that compares
  // with, counts or tests what it has seen meets a fed item that looks like the one in flight)
  let fed: Vec<Ev> = if restricted { vec![Ev::n(9)] } else if full { vec![Ev::n(9), Ev::n(1), Ev::n(2), Ev::E(6), Ev::C] } else { vec![Ev::n(9), Ev::E(6), Ev::C] };
  let mut w1 = vec![];
  for sc in wf_scripts(&[1, 2], 2, &[Ending::Complete, Ending::Error, Ending::Silent]) {
    for trig in trigs.iter().cloned() {
      for ev in &fed {
        for k in [SrcKind::Hot, SrcKind::Subject, SrcKind::BehaviorSubject, SrcKind::ReplaySubject] {
          let mut acts = vec![Act::Feed { outer: 0, trig, src: 0, ev: ev.clone() }, Act::Sub(0)];
          acts.extend(sc.iter().map(|e| Act::Emit(0, e.clone())));
          // one more round after the script: what the feedback left behind must stay shut
          acts.push(Act::Emit(0, Ev::n(3)));
          w1.push(World { srcs: vec![k], acts });
        }
      }
    }
  }
  let w1 = Arc::new(w1);
  let mut fams = vec![];
  let mut p1 = vec![Node::Src(0)];
  p1.extend(depth1(last_pos));
  if !needs_reference {
    // ref_count()/replay() in the pipeline (for one subscriber; their reference semantics under feedback is C13's business)
    p1.extend(connectable_pipelines(false));
    p1.extend(connectable_pipelines(true));
  }
  fams.push((Family { name: "feedback: a callback pushes into the hot source it is fed from, depth 0-1".into(), pipelines: p1, worlds: w1.clone(), oracles: oracles.clone() }, 1));
  let red = reduced_ops();
  let w1s: Arc<Vec<World>> = if th { w1.clone() } else { Arc::new(w1.iter().step_by(3).cloned().collect()) };
  fams.push((Family { name: "feedback, depth 2 (reduced catalogue)".into(), pipelines: depth2(&red, &red), worlds: w1s, oracles: oracles.clone() }, 2));
  if !needs_reference {
    // user code inside Item::clone: while the library clones the item it is delivering, the clone pushes
    // a further event into the source (a terminal, say) - whatever is delivered must still obey the contract
    let mut wc = vec![];
    for fed in [Ev::C, Ev::E(6), Ev::n(9)] {
      for k in [SrcKind::Hot, SrcKind::Subject, SrcKind::BehaviorSubject, SrcKind::ReplaySubject] {
        for two_subscribers in [false, true] {
          let mut acts = vec![Act::Sub(0)];
          if two_subscribers {
            acts.push(Act::Sub(1));
          }
          acts.push(Act::EmitCloneFeed(0, Ev::n(1), fed.clone()));
          acts.push(Act::Emit(0, Ev::n(3)));
          acts.push(Act::EmitCloneFeed(0, Ev::n(2), Ev::C));
          wc.push(World { srcs: vec![k.clone()], acts });
        }
      }
    }
    let mut pc = vec![Node::Src(0)];
    pc.extend(depth1(last_pos));
    pc.extend(connectable_pipelines(false));
    fams.push((Family { name: "user code inside Item::clone pushes into the source during the delivery".into(), pipelines: pc, worlds: Arc::new(wc), oracles: oracles.clone() }, 1));
    // a callback of the subscriber panics at its 1st / 2nd item; whoever called next() catches the unwinding
    // and the source goes on: what the subscriber sees before and after still obeys the contract (a panic is
    // not a notification: the library must not turn it into half of one)
    let mut wp = vec![];
    for sc in wf_scripts(&[1, 2], 2, &[Ending::Complete, Ending::Error, Ending::Silent]) {
      for trig in [Trig::Item(1), Trig::Item(2)] {
        for k in [SrcKind::Hot, SrcKind::Subject, SrcKind::BehaviorSubject, SrcKind::ReplaySubject] {
          let mut acts = vec![Act::PanicAt { outer: 0, trig }, Act::Sub(0)];
          acts.extend(sc.iter().map(|e| Act::Emit(0, e.clone())));
          acts.push(Act::Emit(0, Ev::n(3)));
          wp.push(World { srcs: vec![k], acts });
        }
      }
    }
    let mut pp = vec![Node::Src(0)];
    pp.extend(depth1(last_pos));
    fams.push((Family { name: "a callback of the subscriber panics; the caller of next() catches it and the source goes on".into(), pipelines: pp, worlds: Arc::new(wp), oracles: oracles.clone() }, 1));
    // user code inside an operator's function: map's f (a predicate, an accumulator, a selector ...)
    // pushes a further event into the source before it returns its result
    let mut wf = vec![];
    for fed in [Ev::C, Ev::E(6), Ev::n(9)] {
      for k in [SrcKind::Hot, SrcKind::Subject, SrcKind::BehaviorSubject, SrcKind::ReplaySubject] {
        for first in [1i64, 2] {
          wf.push(World { srcs: vec![k.clone()], acts: vec![Act::Sub(0), Act::EmitFnFeed(0, Ev::n(first), fed.clone()), Act::Emit(0, Ev::n(3)), Act::EmitFnFeed(0, Ev::n(2), Ev::C), Act::Emit(0, Ev::n(1))] });
          wf.push(World { srcs: vec![k.clone()], acts: vec![Act::Sub(0), Act::Emit(0, Ev::n(first)), Act::EmitFnFeed(0, Ev::n(3), fed.clone()), Act::Emit(0, Ev::n(1))] });
        }
      }
    }
    let has_fn = |o: &Op| matches!(o, Op::Map(_) | Op::Filter(_) | Op::Tap | Op::Scan | Op::SkipWhile(_) | Op::TakeWhile(_) | Op::All(_) | Op::Reduce | Op::DematInBand(..) | Op::GroupByParity | Op::GroupByParityFlat | Op::GroupByParityFlatResume | Op::GroupByParityDeferred | Op::RetryWhen(_) | Op::OnErrorResumeNext(_) | Op::FlatMap(_));
    let fn_ops: Vec<Op> = last_pos.iter().filter(|o| has_fn(o)).cloned().collect();
    let red_fn: Vec<Op> = reduced_ops().into_iter().filter(|o| has_fn(o)).collect();
    let mut pf = depth1(&fn_ops);
    pf.extend(depth2(&red_fn, &reduced_ops()));
    pf.extend(depth2(&reduced_ops(), &red_fn));
    fams.push((Family { name: "user code inside an operator's function pushes into the source before it returns".into(), pipelines: pf, worlds: Arc::new(wf), oracles: oracles.clone() }, 2));
  }
  // two hot inputs of a combining operator; the callback feeds either of them
  let mut w2 = vec![];
  let per_src = wf_scripts(&[1], 1, &[Ending::Complete, Ending::Error, Ending::Silent]);
  for a in &per_src {
    for b in &per_src {
      for il in interleavings(&[a.clone(), offset(b, 10)]) {
        for trig in trigs.iter().cloned() {
          for ev in &fed {
            for src in [0usize, 1] {
              // one more round after the script, in both orders: what the feedback left behind shows
              for tail in [[Act::Emit(0, Ev::n(3)), Act::Emit(1, Ev::n(13))], [Act::Emit(1, Ev::n(13)), Act::Emit(0, Ev::n(3))]] {
                let mut acts = vec![Act::Feed { outer: 0, trig, src, ev: ev.clone() }, Act::Sub(0)];
                acts.extend(il.iter().cloned());
                acts.extend(tail);
                w2.push(World { srcs: vec![SrcKind::Hot, SrcKind::Hot], acts });
              }
            }
          }
        }
      }
    }
  }
  let two = |op: &Op| Node::opx(op.clone(), Node::Src(0), vec![Node::Src(1)]);
  let mut p2: Vec<Node> = (if needs_reference { multi_ops() } else { multi_ops_all() }).iter().map(two).collect();
  p2.push(Node::op(Op::FlatMap(Inner::Hot { base: 1, n: 1 }), Node::Src(0)));
  fams.push((Family { name: "feedback into either input of a combining operator".into(), pipelines: p2, worlds: Arc::new(w2), oracles }, 1));
  fams
}

/// the subscriber unsubscribes its own subscription from inside one of its callbacks (at its
/// 1st / 2nd item): the rest of the emission that is in progress must not arrive, and everything
/// upstream is torn down / released as for an unsubscribe from outside
fn self_unsub_families(th: bool, last_pos: &[Op], oracles: Vec<Oracle>) -> Vec<(Family, usize)> {
  let mut w1 = vec![];
  for sc in wf_scripts(&[1, 2], if th { 3 } else { 2 }, &[Ending::Complete, Ending::Error, Ending::Silent]) {
    for trig in [Trig::Item(1), Trig::Item(2)] {
      for k in [SrcKind::Hot, SrcKind::Subject, SrcKind::BehaviorSubject, SrcKind::ReplaySubject] {
        let mut acts = vec![Act::SelfUnsub { outer: 0, trig }, Act::Sub(0)];
        acts.extend(sc.iter().map(|e| Act::Emit(0, e.clone())));
        acts.push(Act::Emit(0, Ev::n(3)));
        w1.push(World { srcs: vec![k], acts });
      }
    }
  }
  let w1 = Arc::new(w1);
  let mut fams = vec![];
  let mut p1 = vec![Node::Src(0)];
  p1.extend(depth1(last_pos));
  fams.push((Family { name: "the subscriber unsubscribes itself from a callback, depth 0-1".into(), pipelines: p1, worlds: w1.clone(), oracles: oracles.clone() }, 1));
  let red = reduced_ops();
  fams.push((Family { name: "the subscriber unsubscribes itself from a callback, depth 2 (reduced catalogue)".into(), pipelines: depth2(&red, &red), worlds: w1.clone(), oracles: oracles.clone() }, 2));
  let mut w2 = vec![];
  let per_src = wf_scripts(&[1], 2, &[Ending::Complete, Ending::Error, Ending::Silent]);
  for a in &per_src {
    for b in &per_src {
      for il in interleavings(&[a.clone(), offset(b, 10)]).into_iter().step_by(if th { 1 } else { 2 }) {
        for trig in [Trig::Item(1), Trig::Item(2)] {
          let mut acts = vec![Act::SelfUnsub { outer: 0, trig }, Act::Sub(0)];
          acts.extend(il.iter().cloned());
          acts.push(Act::Emit(0, Ev::n(3)));
          acts.push(Act::Emit(1, Ev::n(13)));
          w2.push(World { srcs: vec![SrcKind::Hot, SrcKind::Hot], acts });
        }
      }
    }
  }
  let needs_reference = oracles.iter().any(|o| matches!(o, Oracle::Functional | Oracle::Teardown | Oracle::Independence));
  let two = |op: &Op| Node::opx(op.clone(), Node::Src(0), vec![Node::Src(1)]);
  let mut p2: Vec<Node> = (if needs_reference { multi_ops() } else { multi_ops_all() }).iter().map(two).collect();
  p2.push(Node::op(Op::FlatMap(Inner::Hot { base: 1, n: 1 }), Node::Src(0)));
  p2.push(Node::op(Op::FlatMap(Inner::Cold2), Node::Src(0)));
  fams.push((Family { name: "the subscriber unsubscribes itself from a callback, combining operators and flat_map".into(), pipelines: p2, worlds: Arc::new(w2), oracles }, 1));
  fams
}

/// window_with_count / group_by: the subscriber ends the inner observables it was handed (the
/// first, the second, both) while the outer subscription goes on
fn inner_unsub_families(th: bool, oracles: Vec<Oracle>) -> Vec<(Family, usize)> {
  let mut w = vec![];
  for sc in wf_scripts(&[1, 2], if th { 4 } else { 3 }, &[Ending::Complete, Ending::Error, Ending::Silent]) {
    for which in [vec![1u32], vec![2], vec![1, 2]] {
      for pos in 0..=sc.len() {
        for k in [SrcKind::Hot, SrcKind::Subject] {
          let mut acts = vec![Act::Sub(0)];
          for (i, e) in sc.iter().enumerate() {
            if i == pos {
              acts.extend(which.iter().map(|x| Act::InnerUnsub(0, *x)));
            }
            acts.push(Act::Emit(0, e.clone()));
          }
          if pos == sc.len() {
            acts.extend(which.iter().map(|x| Act::InnerUnsub(0, *x)));
          }
          w.push(World { srcs: vec![k], acts });
        }
      }
    }
  }
  let direct = direct_ops(th);
  let mut p = depth1(&direct);
  p.extend(depth2(&reduced_ops(), &direct));
  vec![(Family { name: "window_with_count / group_by: inner observables unsubscribed early, the outer subscription goes on".into(), pipelines: p, worlds: Arc::new(w), oracles }, 2)]
}

fn run_families(prop: &str, r: &mut Report, fams: Vec<(Family, usize)>) {
  let stop = AtomicBool::new(false);
  let mut per = vec![];
  for (f, depth) in fams {
    let st = run_family(prop, &f, depth, &stop);
    fold_stats(r, &f.name, st, &mut per);
  }
  r.extra.push(("families".to_string(), J::A(per)));
  r.extra.push((
    "explanation".to_string(),
    s("states = nodes of the history trees visited (one per driver step of every run, plus the initial state of every run); transitions = driver steps (subscribe / source event / unsubscribe) executed on the real crate; every run is executed on fresh real objects and, where the oracle is functional, on the reference interpreter as well, so traces_validated_against_impl = runs"),
  ));
}

pub fn check(prop: &str, tier: &str) -> Option<Report> {
  let th = thorough(tier);
  let mut r = Report::new(prop, tier, "S");
  r.assumptions = s_assumptions();
  let single = single_ops(th);
  let direct = direct_ops(th);
  let mut last_pos = single.clone();
  last_pos.extend(direct.clone());
  match prop {
    "C02" => {
      let w1 = Arc::new(c02_worlds(if th { 6 } else { 4 }, &[1, 2, 3]));
      let w2 = Arc::new(c02_worlds(if th { 5 } else { 3 }, &[1, 2, 3]));
      let wl = Arc::new(lib_worlds(1));
      let mut with_src = vec![Node::Src(0)];
      with_src.extend(depth1(&last_pos));
      let mut fams = vec![
        (Family { name: "creation functions".into(), pipelines: vec![], worlds: w1.clone(), oracles: vec![] }, 0),
        (Family { name: "creation functions (just, from_iter, range, empty, never, error, defer, start, from_result, repeat, Something), alone and below every operator".into(), pipelines: with_src, worlds: wl, oracles: vec![Oracle::Functional] }, 1),
        (Family { name: "depth 1".into(), pipelines: depth1(&last_pos), worlds: w1.clone(), oracles: vec![Oracle::Functional] }, 1),
        (Family { name: "depth 2".into(), pipelines: depth2(&single, &last_pos), worlds: w2.clone(), oracles: vec![Oracle::Functional] }, 2),
      ];
      fams.remove(0);
      if th {
        let w3 = Arc::new(c02_worlds(4, &[1, 2, 3]));
        fams.push((Family { name: "depth 3 (reduced catalogue)".into(), pipelines: depth3(&reduced_ops()), worlds: w3, oracles: vec![Oracle::Functional] }, 3));
        let w8: Vec<World> = wf_scripts(&[1, 2], 8, &[Ending::Complete, Ending::Error]).into_iter().filter(|s| s.len() >= 7).map(|s| cold_world(s, true)).collect();
        fams.push((Family { name: "depth 1, long scripts over {1,2}".into(), pipelines: depth1(&last_pos), worlds: Arc::new(w8), oracles: vec![Oracle::Functional] }, 1));
      }
      {
        // bursts far longer than any small constant an operator might batch or cap by
        let mut wb = vec![];
        for n in [40usize, 70] {
          for pat in [[1i64, 2, 3], [3, 1, 1]] {
            for end in [Some(Ev::C), Some(Ev::E(5)), None] {
              let mut sc: Vec<Ev> = (0..n).map(|i| Ev::n(pat[i % 3])).collect();
              sc.extend(end);
              wb.push(cold_world(sc.clone(), true));
              wb.push(hot_world(&sc));
            }
          }
        }
        fams.push((Family { name: "depth 1, bursts of 40 and 70 items".into(), pipelines: depth1(&last_pos), worlds: Arc::new(wb), oracles: vec![Oracle::Functional] }, 1));
      }
      fams.extend(connectable_families(&w2, vec![Oracle::Functional]));
      fams.extend(inner_unsub_families(th, vec![Oracle::Functional]));
      {
        // feedback (an item / error / complete pushed from the item callback) through the operators
        // that never end by themselves: for them the order of "update my state" and "hand the item on"
        // is visible - and fixed by their definition - when the source terminates during the delivery
        let passive: Vec<Op> = last_pos
          .iter()
          .filter(|o| {
            !matches!(
              o,
              Op::Take(_) | Op::First | Op::TakeWhile(_) | Op::ElementAt(_) | Op::Contains(_) | Op::All(_) | Op::DematInBand(..) | Op::Retry(_) | Op::RetryWhen(_) | Op::OnErrorResumeNext(_) | Op::TimeInterval | Op::Window(_) | Op::GroupByParity | Op::WindowDeferred(_) | Op::GroupByParityDeferred
            )
          })
          .cloned()
          .collect();
        // (not over Behavior/ReplaySubject: there the first item is the hand-over inside subscribe, and what a
        // push made during the hand-over means for the newcomer is C12's recorded finding)
        for (mut f, d) in feedback_families_x(th, &passive, vec![Oracle::Functional], true).into_iter().take(1) {
          f.worlds = Arc::new(f.worlds.iter().filter(|w| matches!(w.srcs[0], SrcKind::Hot | SrcKind::Subject)).cloned().collect());
          fams.push((f, d));
        }
      }
      run_families(prop, &mut r, fams);
    }
    "C01" => {
      // rude cold sources: every string over {n1,n2,E,C}, not cut at the first terminal
      let alpha = vec![Ev::n(1), Ev::n(2), Ev::E(5), Ev::C];
      let strs = strings(&alpha, if th { 5 } else { 4 });
      let cold: Vec<World> = strs.iter().cloned().map(|sc| cold_world(sc, false)).collect();
      let hot: Vec<World> = strings(&alpha, 3).iter().map(|sc| hot_world(sc)).collect();
      let mut w = cold.clone();
      w.extend(hot);
      let w = Arc::new(w);
      let w_small: Arc<Vec<World>> = Arc::new(strings(&alpha, 3).into_iter().map(|sc| cold_world(sc, false)).chain(strings(&alpha, 3).iter().map(|sc| hot_world(sc))).collect());
      let mut fams = vec![
        (Family { name: "depth 0 (subscriber directly on the source)".into(), pipelines: vec![Node::Src(0)], worlds: w.clone(), oracles: vec![Oracle::Contract] }, 0),
        (Family { name: "depth 1".into(), pipelines: depth1(&last_pos), worlds: w.clone(), oracles: vec![Oracle::Contract] }, 1),
        (Family { name: "depth 2".into(), pipelines: depth2(&single, &last_pos), worlds: if th { w.clone() } else { w_small.clone() }, oracles: vec![Oracle::Contract] }, 2),
      ];
      let mut with_src = vec![Node::Src(0)];
      with_src.extend(depth1(&last_pos));
      fams.push((Family { name: "creation functions, alone and below every operator".into(), pipelines: with_src, worlds: Arc::new(lib_worlds(1)), oracles: vec![Oracle::Contract] }, 1));
      fams.extend(multi_families(th, true, vec![Oracle::Contract]));
      fams.extend(connectable_families(&w_small, vec![Oracle::Contract]));
      fams.extend(feedback_families(th, &last_pos, vec![Oracle::Contract]));
      if th {
        fams.push((Family { name: "depth 3 (reduced catalogue)".into(), pipelines: depth3(&reduced_ops()), worlds: w_small, oracles: vec![Oracle::Contract] }, 3));
      }
      run_families(prop, &mut r, fams);
    }
    "C03" => {
      let mut fams = multi_families(th, false, vec![Oracle::Functional]);
      // the same sequential orders produced by feedback: the subscriber's callback pushes the next event
      fams.extend(feedback_families(th, &[], vec![Oracle::Functional]).into_iter().skip(2));
      // one input far ahead of the other: a cold input of 1100 items plays at subscribe time, the hot one
      // follows item by item (a cap on what an operator keeps per input shows here: seed C11-k caps at 1024)
      {
        let long: Vec<Ev> = (1..=1100).map(Ev::n).chain(std::iter::once(Ev::C)).collect();
        let mut acts = vec![Act::Sub(0)];
        acts.extend((1..=1100).map(|k| Act::Emit(1, Ev::n(10_000 + k))));
        acts.push(Act::Emit(1, Ev::C));
        let wl = vec![
          World { srcs: vec![SrcKind::Cold { scripts: vec![long.clone()], polite: true }, SrcKind::Hot], acts: acts.clone() },
          World { srcs: vec![SrcKind::Hot, SrcKind::Cold { scripts: vec![long.clone()], polite: true }], acts: acts.iter().map(|a| if let Act::Emit(1, e) = a { Act::Emit(0, e.clone()) } else { a.clone() }).collect() },
        ];
        let pl: Vec<Node> = [Op::Zip, Op::Merge, Op::CombineLatest, Op::Concat].iter().map(|o| Node::opx(o.clone(), Node::Src(0), vec![Node::Src(1)])).collect();
        fams.push((Family { name: "one input 1100 items ahead of the other".into(), pipelines: pl, worlds: Arc::new(wl), oracles: vec![Oracle::Functional] }, 1));
      }
      // switch_on_next: no statement fixes its full function, its name fixes one thing - after the
      // switch nothing of the first input is delivered. Sequential interleavings and feedback.
      {
        let sw = vec![Node::opx(Op::SwitchOnNext, Node::Src(0), vec![Node::Src(1)]), Node::op(Op::Tap, Node::opx(Op::SwitchOnNext, Node::Src(0), vec![Node::Src(1)]))];
        for (f, d) in multi_families(th, false, vec![Oracle::Switch]).into_iter().filter(|(f, _)| f.worlds.first().map_or(false, |w| w.srcs.len() == 2)).take(1) {
          fams.push((Family { name: format!("switch_on_next: {}", f.name), pipelines: sw.clone(), worlds: f.worlds.clone(), oracles: vec![Oracle::Switch] }, d));
        }
        if let Some((f, d)) = feedback_families_x(th, &[], vec![Oracle::Switch], false).into_iter().last() {
          fams.push((Family { name: format!("switch_on_next: {}", f.name), pipelines: sw.clone(), worlds: f.worlds.clone(), oracles: vec![Oracle::Switch] }, d));
        }
      }
      // utils::ready_set_go: subscribe first, then run the action that emits into the source
      let rsg: Vec<Node> = wf_scripts(&[1, 2], 3, &[Ending::Complete, Ending::Error, Ending::Silent])
        .into_iter()
        .flat_map(|sc| {
          let base = Node::op(Op::ReadySetGo(sc.clone()), Node::Src(0));
          vec![base.clone(), Node::op(Op::Take(2), base.clone()), Node::op(Op::Map(MapF::Inc), base)]
        })
        .collect();
      let mut w_rsg = vec![];
      for k in [SrcKind::Subject, SrcKind::Hot] {
        w_rsg.push(World { srcs: vec![k.clone()], acts: vec![Act::Sub(0)] });
        w_rsg.push(World { srcs: vec![k.clone()], acts: vec![Act::Sub(0), Act::Emit(0, Ev::n(3)), Act::Emit(0, Ev::C)] });
      }
      fams.push((Family { name: "ready_set_go: nothing the action emits is missed".into(), pipelines: rsg, worlds: Arc::new(w_rsg), oracles: vec![Oracle::Functional] }, 1));
      run_families(prop, &mut r, fams);
    }

    "C04" => {
      // errors at every position of every script, through every single-source
      // operator (depth <= 2) and every combining operator
      let werr: Vec<World> = wf_scripts(&[1, 2, 3], if th { 4 } else { 3 }, &[Ending::Error])
        .into_iter()
        .flat_map(|sc| vec![cold_world(sc.clone(), true), hot_world(&sc)])
        .collect();
      let mut werr = werr;
      let via_subjects: Vec<World> = werr
        .iter()
        .filter(|w| w.srcs[0] == SrcKind::Hot)
        .flat_map(|w| [SrcKind::Subject, SrcKind::BehaviorSubject, SrcKind::ReplaySubject].into_iter().map(move |k| World { srcs: vec![k], acts: w.acts.clone() }))
        .collect();
      werr.extend(via_subjects);
      let werr = Arc::new(werr);
      let mut fams = vec![
        (Family { name: "error at every position, depth 0 (also through the crate's subjects)".into(), pipelines: vec![Node::Src(0)], worlds: werr.clone(), oracles: vec![Oracle::Functional] }, 0),
        (Family { name: "error at every position, depth 1".into(), pipelines: depth1(&last_pos), worlds: werr.clone(), oracles: vec![Oracle::Functional] }, 1),
        (Family { name: "error at every position, depth 2".into(), pipelines: depth2(&single, &last_pos), worlds: werr.clone(), oracles: vec![Oracle::Functional] }, 2),
      ];
      // recovery operators over sources whose k-th subscription behaves differently
      let attempts: Vec<Vec<Ev>> = vec![
        vec![Ev::E(1)],
        vec![Ev::n(1), Ev::E(2)],
        vec![Ev::n(1), Ev::n(2), Ev::E(7)],
        vec![Ev::n(3), Ev::C],
        vec![Ev::C],
      ];
      let ok_last = |v: &Vec<Ev>| v.last() == Some(&Ev::C);
      let mut wr = vec![];
      let mut wr_terminating = vec![];
      for a in &attempts {
        for b in &attempts {
          for c in &attempts {
            for d in &attempts {
              let scripts = vec![a.clone(), b.clone(), c.clone(), d.clone()];
              let w = World { srcs: vec![SrcKind::Cold { scripts: scripts.clone(), polite: true }], acts: vec![Act::Sub(0)] };
              if ok_last(d) {
                wr_terminating.push(w.clone());
              }
              wr.push(w);
            }
          }
        }
      }
      let bounded: Vec<Op> = vec![Op::Retry(1), Op::Retry(2), Op::Retry(3), Op::Retry(4), Op::RetryWhen(EPred::Never), Op::RetryWhen(EPred::PayloadLt(2)), Op::RetryWhen(EPred::PayloadLt(7))]
        .into_iter()
        .chain([Resume::Just9, Resume::Empty, Resume::OtherErr, Resume::SameErr, Resume::Cold89].iter().map(|r| Op::OnErrorResumeNext(*r)))
        .chain(vec![Op::Materialize, Op::MatDemat])
        .collect();
      let unbounded: Vec<Op> = vec![Op::Retry(0), Op::RetryWhen(EPred::Always)];
      let wr = Arc::new(wr);
      let wr_t = Arc::new(wr_terminating);
      fams.push((Family { name: "recovery operators, k-th subscription differs".into(), pipelines: depth1(&bounded), worlds: wr.clone(), oracles: vec![Oracle::Functional, Oracle::Teardown] }, 1));
      fams.push((Family { name: "retry(0) / retry_when(always), eventually succeeding source".into(), pipelines: depth1(&unbounded), worlds: wr_t.clone(), oracles: vec![Oracle::Functional, Oracle::Teardown] }, 1));
      // a long run of failing attempts before the source succeeds (a retry budget hidden in the operator - a
      // depth guard, a counter - shows here: seed C04-k stops after 32; 70 covers the usual 64 as well)
      {
        let mut wl = vec![];
        for last in [vec![Ev::n(3), Ev::C], vec![Ev::n(1), Ev::E(2)]] {
          for fail in [vec![Ev::E(1)], vec![Ev::n(1), Ev::E(1)]] {
            let mut scripts: Vec<Vec<Ev>> = (0..70).map(|_| fail.clone()).collect();
            scripts.push(last.clone());
            wl.push(World { srcs: vec![SrcKind::Cold { scripts, polite: true }], acts: vec![Act::Sub(0)] });
          }
        }
        let long_ops = vec![Op::Retry(0), Op::RetryWhen(EPred::Always), Op::RetryWhen(EPred::PayloadLt(2)), Op::Retry(4)];
        fams.push((Family { name: "70 failing attempts in a row, then the source succeeds (or fails differently)".into(), pipelines: depth1(&long_ops), worlds: Arc::new(wl), oracles: vec![Oracle::Functional, Oracle::Teardown] }, 1));
      }
      // recovery operators over hot sources that go on after the error they raised: the
      // re-subscription is made from inside the source's error notification
      {
        let alpha = vec![Ev::n(1), Ev::n(2), Ev::E(1), Ev::E(7), Ev::C];
        let mut w_hot_rec = vec![];
        for h in strings(&alpha, if th { 5 } else { 4 }) {
          if h.is_empty() {
            continue;
          }
          let first_terminal = h.iter().position(|e| e.is_terminal());
          for k in [SrcKind::Hot, SrcKind::Subject, SrcKind::BehaviorSubject, SrcKind::ReplaySubject] {
            // what a Behavior/ReplaySubject does with calls after its terminal is not fixed
            if matches!(k, SrcKind::BehaviorSubject | SrcKind::ReplaySubject) && first_terminal.map_or(false, |p| p + 1 < h.len()) {
              continue;
            }
            let mut acts = vec![Act::Sub(0)];
            acts.extend(h.iter().map(|e| Act::Emit(0, e.clone())));
            w_hot_rec.push(World { srcs: vec![k], acts });
          }
        }
        // a Behavior/ReplaySubject hands its stored error to every new attempt: retry_when would never end
        let (w_stored, w_live): (Vec<World>, Vec<World>) = w_hot_rec.into_iter().partition(|w| matches!(w.srcs[0], SrcKind::BehaviorSubject | SrcKind::ReplaySubject));
        let no_retry_when: Vec<Op> = bounded.iter().filter(|o| !matches!(o, Op::RetryWhen(_))).cloned().collect();
        fams.push((Family { name: "recovery operators over hot sources and the crate's Subject, the source goes on after its error".into(), pipelines: depth1(&bounded), worlds: Arc::new(w_live), oracles: vec![Oracle::Functional, Oracle::Teardown] }, 1));
        fams.push((Family { name: "recovery operators over Behavior/ReplaySubject (the stored error meets every attempt)".into(), pipelines: depth1(&no_retry_when), worlds: Arc::new(w_stored), oracles: vec![Oracle::Functional, Oracle::Teardown] }, 1));
      }
      let red = reduced_ops();
      let mut nested = vec![];
      for r0 in &bounded {
        for o in &red {
          nested.push(Node::op(r0.clone(), Node::op(o.clone(), Node::Src(0))));
          nested.push(Node::op(o.clone(), Node::op(r0.clone(), Node::Src(0))));
        }
      }
      let wr_small: Arc<Vec<World>> = Arc::new(wr.iter().step_by(if th { 1 } else { 5 }).cloned().collect());
      fams.push((Family { name: "recovery operator nested with a single-source operator".into(), pipelines: nested, worlds: wr_small, oracles: vec![Oracle::Functional] }, 2));
      let multi: Vec<(Family, usize)> = multi_families(th, false, vec![Oracle::Functional])
        .into_iter()
        .map(|(mut f, d)| {
          let w: Vec<World> = f.worlds.iter().filter(|w| w.acts.iter().any(|a| matches!(a, Act::Emit(_, Ev::E(_)))) || w.srcs.iter().any(|s| matches!(s, SrcKind::Cold { scripts, .. } if scripts[0].iter().any(|e| matches!(e, Ev::E(_)))))).cloned().collect();
          f.worlds = Arc::new(w);
          f.name = format!("{} (histories with an error)", f.name);
          (f, d)
        })
        .collect();
      fams.extend(multi);
      run_families(prop, &mut r, fams);
      // subscription counts of the source under retry / retry_when
      r.assumptions.push("source subscription counts are compared through the per-subscription scripts: the k-th attempt's items identify the k-th subscription".into());
    }
    "C05" | "C06" | "C17" => {
      // hot histories with an unsubscribe at every position (also twice, also after the terminal)
      let scripts = wf_scripts(&[1, 2], if th { 3 } else { 2 }, &[Ending::Complete, Ending::Error, Ending::Silent]);
      let mut w = vec![];
      for sc in &scripts {
        for pos in 0..=sc.len() {
          for twice in [false, true] {
            let mut acts = vec![Act::Sub(0)];
            for (i, e) in sc.iter().enumerate() {
              if i == pos {
                acts.push(Act::Unsub(0));
                if twice {
                  acts.push(Act::Unsub(0));
                }
              }
              acts.push(Act::Emit(0, e.clone()));
            }
            if pos == sc.len() {
              acts.push(Act::Unsub(0));
              if twice {
                acts.push(Act::Unsub(0));
              }
            }
            w.push(World { srcs: vec![SrcKind::Hot], acts });
          }
        }
        if prop != "C05" {
          // no unsubscribe: ends by the terminal (or by the operator itself)
          w.push(hot_world(sc));
          w.push(cold_world(sc.clone(), true));
        }
      }
      if prop == "C06" {
        // endless polite producers: stopped only by teardown
        w.push(World { srcs: vec![SrcKind::Endless(1)], acts: vec![Act::Sub(0)] });
        w.push(World { srcs: vec![SrcKind::Endless(2)], acts: vec![Act::Sub(0)] });
        // long cold script
        w.push(cold_world(vec![Ev::n(1), Ev::n(2), Ev::n(1), Ev::n(2), Ev::n(3), Ev::n(1), Ev::C], true));
      }
      if prop == "C05" {
        // dropping a utils::Using guard instead of calling unsubscribe
        let using: Vec<World> = w
          .iter()
          .filter(|x| x.acts.iter().filter(|a| matches!(a, Act::Unsub(_))).count() == 1)
          .map(|x| World { srcs: x.srcs.clone(), acts: x.acts.iter().map(|a| if let Act::Unsub(r) = a { Act::UsingDrop(*r) } else { a.clone() }).collect() })
          .collect();
        w.extend(using);
        // ... and the guard's owner panics: the guard is dropped by the unwinding
        let unwinding: Vec<World> = w
          .iter()
          .filter(|x| x.acts.iter().any(|a| matches!(a, Act::UsingDrop(_))))
          .map(|x| World { srcs: x.srcs.clone(), acts: x.acts.iter().map(|a| if let Act::UsingDrop(r) = a { Act::UsingDropUnwinding(*r) } else { a.clone() }).collect() })
          .collect();
        w.extend(unwinding);
        // ... and unsubscribe() called on one copy of the Subscription while another copy sits under a guard
        let guarded: Vec<World> = w
          .iter()
          .filter(|x| x.acts.iter().any(|a| matches!(a, Act::UsingDrop(_))))
          .step_by(if th { 1 } else { 3 })
          .map(|x| World { srcs: x.srcs.clone(), acts: x.acts.iter().map(|a| if let Act::UsingDrop(r) = a { Act::UnsubGuarded(*r) } else { a.clone() }).collect() })
          .collect();
        w.extend(guarded);
      } else {
        w.extend(lib_worlds(1));
      }
      // the same histories with the crate's own Subject as the hot source
      let mut subj: Vec<World> = vec![];
      for k in [SrcKind::Subject, SrcKind::BehaviorSubject, SrcKind::ReplaySubject] {
        subj.extend(w.iter().filter(|x| x.srcs[0] == SrcKind::Hot).map(|x| World { srcs: vec![k.clone()], acts: x.acts.clone() }));
      }
      w.extend(subj);
      // Behavior/ReplaySubject that already hold items when the subscriber arrives: an operator
      // that has all it needs ends during the hand-over
      let mut prefilled: Vec<World> = vec![];
      for k in [SrcKind::BehaviorSubject, SrcKind::ReplaySubject] {
        for pre in [vec![1], vec![1, 2], vec![2, 1, 2]] {
          for x in w.iter().filter(|x| x.srcs[0] == k).step_by(if th { 1 } else { 2 }) {
            let mut acts: Vec<Act> = pre.iter().map(|v| Act::Emit(0, Ev::n(*v))).collect();
            acts.extend(x.acts.iter().cloned());
            prefilled.push(World { srcs: vec![k.clone()], acts });
          }
        }
      }
      w.extend(prefilled);
      // a plain Subject (and the harness's hot source) that has already delivered a terminal when the
      // subscriber arrives: whatever it does with the late subscriber, is_subscribed() has to tell the truth
      let mut preterminated: Vec<World> = vec![];
      for k in [SrcKind::Hot, SrcKind::Subject] {
        for pre in [Ev::C, Ev::E(5)] {
          for x in w.iter().filter(|x| x.srcs[0] == k && !matches!(x.acts.first(), Some(Act::Emit(..)))).step_by(if th { 1 } else { 3 }) {
            let mut acts = vec![Act::Emit(0, pre.clone())];
            acts.extend(x.acts.iter().cloned());
            preterminated.push(World { srcs: vec![k.clone()], acts });
          }
        }
      }
      w.extend(preterminated);
      let oracle = match prop {
        "C05" => vec![Oracle::Unsub],
        "C06" => vec![Oracle::Teardown],
        _ => vec![Oracle::Release],
      };
      let w = Arc::new(w);
      // endless sources only below operators that end by themselves
      let ends_itself = |o: &Op| matches!(o, Op::Take(_) | Op::First | Op::TakeWhile(_) | Op::ElementAt(_) | Op::Contains(_) | Op::All(_));
      let mut fams = vec![];
      let filt = |ps: Vec<Node>| -> Vec<Node> { ps };
      fams.push((Family { name: "depth 0".into(), pipelines: vec![Node::Src(0)], worlds: Arc::new(w.iter().filter(|x| !matches!(x.srcs[0], SrcKind::Endless(_))).cloned().collect()), oracles: oracle.clone() }, 0));
      let (d1_end, d1_other): (Vec<Op>, Vec<Op>) = last_pos.iter().cloned().partition(|o| ends_itself(o));
      let w_noend: Arc<Vec<World>> = Arc::new(w.iter().filter(|x| !matches!(x.srcs[0], SrcKind::Endless(_))).cloned().collect());
      fams.push((Family { name: "depth 1, self-ending operators (incl. endless producers)".into(), pipelines: filt(depth1(&d1_end)), worlds: w.clone(), oracles: oracle.clone() }, 1));
      fams.push((Family { name: "depth 1, other operators".into(), pipelines: depth1(&d1_other), worlds: w_noend.clone(), oracles: oracle.clone() }, 1));
      // depth 2: the self-ending operator on top so that endless producers stop
      let singles_noend: Vec<Op> = single.iter().filter(|o| !ends_itself(o)).cloned().collect();
      fams.push((Family { name: "depth 2, self-ending operator above".into(), pipelines: depth2(&singles_noend, &d1_end), worlds: w.clone(), oracles: oracle.clone() }, 2));
      fams.push((Family { name: "depth 2, other".into(), pipelines: depth2(&single, &d1_other), worlds: w_noend.clone(), oracles: oracle.clone() }, 2));
      fams.push((Family { name: "depth 2, self-ending operator below".into(), pipelines: depth2(&d1_end, &singles_noend), worlds: w_noend.clone(), oracles: oracle.clone() }, 2));
      // an input that is subscribed with a subscriber that has already ended: the first input of a combining
      // operator ends the stream synchronously, the second one is a Subject / ref_count() / replay() pipeline
      // (which must not keep - or connect for - a subscriber that can never unsubscribe again)
      {
        let mut wd = vec![];
        for first in [vec![Ev::E(5)], vec![Ev::n(1), Ev::E(5)], vec![Ev::C], vec![Ev::n(1), Ev::C]] {
          for k in [SrcKind::Hot, SrcKind::Subject, SrcKind::BehaviorSubject, SrcKind::ReplaySubject] {
            for unsub in [false, true] {
              let mut acts = vec![Act::Sub(0), Act::Emit(1, Ev::n(11))];
              if unsub {
                acts.push(Act::Unsub(0));
              }
              acts.push(Act::Emit(1, Ev::n(12)));
              wd.push(World { srcs: vec![SrcKind::Cold { scripts: vec![first.clone()], polite: true }, k.clone()], acts });
            }
          }
        }
        let mut pd = vec![];
        for m in [Op::Merge, Op::Zip, Op::CombineLatest, Op::Amb, Op::Concat] {
          let mut xs: Vec<Option<Op>> = vec![None, Some(Op::RefCount), Some(Op::Defer)];
          xs.extend(reduced_ops().into_iter().map(Some));
          for x in xs {
            let second = match &x {
              None => Node::Src(1),
              Some(o) => Node::op(o.clone(), Node::Src(1)),
            };
            pd.push(Node::opx(m.clone(), Node::Src(0), vec![second.clone()]));
            if let Some(Op::RefCount) = x {
              pd.push(Node::opx(m.clone(), Node::Src(0), vec![Node::op(Op::Map(MapF::Inc), second.clone())]));
            }
          }
        }
        fams.push((Family { name: "the second input of a combining operator is subscribed with a subscriber that has already ended".into(), pipelines: pd, worlds: Arc::new(wd), oracles: oracle.clone() }, 2));
      }
      // a trigger that fires while it is being subscribed and does not end by itself (a Behavior/ReplaySubject
      // that holds an item): take_until ends - and skip_until / sample go on - with the trigger's pipeline
      // sitting in a subject that outlives the subscription (seed C17-l: the trigger's subscription was parked
      // in a slot that is filled only after the trigger's subscribe has returned)
      {
        let mut wt = vec![];
        for k in [SrcKind::BehaviorSubject, SrcKind::ReplaySubject] {
          for unsub in [false, true] {
            for end in [None, Some(Ev::C), Some(Ev::E(5))] {
              let mut acts = vec![Act::Emit(1, Ev::n(11)), Act::Sub(0), Act::Emit(0, Ev::n(1)), Act::Emit(1, Ev::n(12))];
              if unsub {
                acts.push(Act::Unsub(0));
              }
              acts.push(Act::Emit(0, Ev::n(2)));
              if let Some(e) = &end {
                acts.push(Act::Emit(0, e.clone()));
              }
              acts.push(Act::Emit(1, Ev::n(13)));
              wt.push(World { srcs: vec![SrcKind::Hot, k.clone()], acts: acts.clone() });
              wt.push(World { srcs: vec![SrcKind::Subject, k.clone()], acts });
            }
          }
        }
        let mut pt = vec![];
        for m in [Op::TakeUntil, Op::SkipUntil, Op::Sample] {
          pt.push(Node::opx(m.clone(), Node::Src(0), vec![Node::Src(1)]));
          pt.push(Node::opx(m.clone(), Node::Src(0), vec![Node::op(Op::Map(MapF::Inc), Node::Src(1))]));
        }
        fams.push((Family { name: "a trigger that fires while it is being subscribed (a subject that holds an item)".into(), pipelines: pt, worlds: Arc::new(wt), oracles: oracle.clone() }, 2));
      }
      fams.extend(connectable_families(&w_noend, oracle.clone()));
      fams.extend(self_unsub_families(th, &last_pos, oracle.clone()));
      if prop == "C05" {
        // feedback: a callback pushes a further event into the source it is fed from - is_subscribed() still
        // tells the truth (true until the subscriber has seen a terminal or unsubscribed; needs no reference)
        for (f, d) in feedback_families(th, &last_pos, oracle.clone()) {
          if f.name.starts_with("user code inside") || f.name.starts_with("a callback of the subscriber panics") {
            continue;
          }
          fams.push((f, d));
        }
      }
      fams.extend(inner_unsub_families(th, oracle.clone()));
      // combining operators: unsubscribe at every position of every interleaving (2 hot sources)
      let mf = multi_families(false, false, oracle.clone());
      for (f, d) in mf {
        let mut ww = vec![];
        for x in f.worlds.iter().step_by(if th { 1 } else { 3 }) {
          if prop != "C05" {
            ww.push(x.clone());
          }
          for pos in 1..=x.acts.len() {
            let mut acts = x.acts.clone();
            acts.insert(pos, Act::Unsub(0));
            ww.push(World { srcs: x.srcs.clone(), acts });
          }
        }
        fams.push((Family { name: format!("{} + unsubscribe at every position", f.name), pipelines: f.pipelines, worlds: Arc::new(ww), oracles: oracle.clone() }, d));
      }
      run_families(prop, &mut r, fams);
    }
    "C14" => {
      let fams = c14_families(th, &single, &last_pos);
      run_families(prop, &mut r, fams);
    }
    _ => return None,
  }
  Some(r)
}

fn offset(script: &[Ev], off: i64) -> Vec<Ev> {
  script.iter().map(|e| if let Ev::N(D::I(x)) = e { Ev::n(x + off) } else { e.clone() }).collect()
}

/// families for the combining operators: 2 (and 3) sources, hot (all
/// sequential interleavings, stepwise), cold (run to completion at subscribe
/// time) and mixtures; with one C02 operator below or above.
pub fn multi_families(th: bool, rude: bool, oracles: Vec<Oracle>) -> Vec<(Family, usize)> {
  let mut fams = vec![];
  let needs_reference = oracles.iter().any(|o| matches!(o, Oracle::Functional | Oracle::Teardown | Oracle::Independence));
  let ops = if needs_reference { multi_ops() } else { multi_ops_all() };
  let per_src: Vec<Vec<Ev>> = if rude {
    let alpha = vec![Ev::n(1), Ev::E(5), Ev::C];
    strings(&alpha, if th { 3 } else { 2 })
  } else {
    wf_scripts(&[1, 2], if th { 3 } else { 2 }, &[Ending::Complete, Ending::Error, Ending::Silent])
  };
  // ---- two hot sources, all interleavings
  let mut w_hot2 = vec![];
  let mut w_hot2_same = vec![];
  for a in &per_src {
    for b in &per_src {
      for il in interleavings(&[a.clone(), offset(b, 10)]) {
        let mut acts = vec![Act::Sub(0)];
        acts.extend(il);
        w_hot2.push(World { srcs: vec![SrcKind::Hot, SrcKind::Hot], acts });
      }
      for il in interleavings(&[a.clone(), b.clone()]) {
        let mut acts = vec![Act::Sub(0)];
        acts.extend(il);
        w_hot2_same.push(World { srcs: vec![SrcKind::Hot, SrcKind::Hot], acts });
      }
    }
  }
  // ---- cold / mixed: source i cold (plays inside subscribe), the other hot
  let mut w_mixed = vec![];
  for a in &per_src {
    for b in &per_src {
      let b10 = offset(b, 10);
      w_mixed.push(World {
        srcs: vec![SrcKind::Cold { scripts: vec![a.clone()], polite: !rude }, SrcKind::Cold { scripts: vec![b10.clone()], polite: !rude }],
        acts: vec![Act::Sub(0)],
      });
      let mut acts = vec![Act::Sub(0)];
      acts.extend(b10.iter().map(|e| Act::Emit(1, e.clone())));
      w_mixed.push(World { srcs: vec![SrcKind::Cold { scripts: vec![a.clone()], polite: !rude }, SrcKind::Hot], acts });
      let mut acts = vec![Act::Sub(0)];
      acts.extend(a.iter().map(|e| Act::Emit(0, e.clone())));
      w_mixed.push(World { srcs: vec![SrcKind::Hot, SrcKind::Cold { scripts: vec![b10.clone()], polite: !rude }], acts });
    }
  }
  let two = |op: &Op| Node::opx(op.clone(), Node::Src(0), vec![Node::Src(1)]);
  let value_blind: Vec<Op> = ops.iter().filter(|o| **o != Op::SequenceEqual).cloned().collect();
  let w_hot2 = Arc::new(w_hot2);
  let w_hot2_same = Arc::new(w_hot2_same);
  let w_mixed = Arc::new(w_mixed);
  fams.push((Family { name: "2 hot sources, all interleavings".into(), pipelines: value_blind.iter().map(two).collect(), worlds: w_hot2.clone(), oracles: oracles.clone() }, 1));
  fams.push((Family { name: "sequence_equal/amb/zip, 2 hot sources over one alphabet".into(), pipelines: vec![two(&Op::SequenceEqual), two(&Op::Amb), two(&Op::Zip)], worlds: w_hot2_same.clone(), oracles: oracles.clone() }, 1));
  fams.push((Family { name: "2 sources, cold and mixed".into(), pipelines: ops.iter().map(two).collect(), worlds: w_mixed.clone(), oracles: oracles.clone() }, 1));
  // ---- one source: the list of further inputs is empty (the statement says 1..4 sources; seed C03-l:
  // a short cut for `sequence_equal(&[])` that never subscribes the source)
  let mut w_one = vec![];
  for a in &per_src {
    w_one.push(World { srcs: vec![SrcKind::Cold { scripts: vec![a.clone()], polite: !rude }], acts: vec![Act::Sub(0)] });
    let mut acts = vec![Act::Sub(0)];
    acts.extend(a.iter().map(|e| Act::Emit(0, e.clone())));
    w_one.push(World { srcs: vec![SrcKind::Hot], acts });
  }
  let one_ops: Vec<Op> = ops.iter().filter(|o| o.n_extra().contains(&1) && *o.n_extra().end() > 1).cloned().collect();
  let one = |op: &Op| Node::opx(op.clone(), Node::Src(0), vec![]);
  fams.push((Family { name: "1 source: the list of further inputs is empty".into(), pipelines: one_ops.iter().map(one).collect(), worlds: Arc::new(w_one), oracles: oracles.clone() }, 1));
  // ---- three sources (reduced alphabet)
  let small: Vec<Vec<Ev>> = if rude {
    strings(&[Ev::n(1), Ev::E(5), Ev::C], 2).into_iter().filter(|s| s.len() <= 2).collect()
  } else {
    wf_scripts(&[1], if th { 2 } else { 1 }, &[Ending::Complete, Ending::Error, Ending::Silent])
  };
  let mut w_hot3 = vec![];
  for a in &small {
    for b in &small {
      for c in &small {
        for il in interleavings(&[a.clone(), offset(b, 10), offset(c, 20)]) {
          let mut acts = vec![Act::Sub(0)];
          acts.extend(il);
          w_hot3.push(World { srcs: vec![SrcKind::Hot, SrcKind::Hot, SrcKind::Hot], acts });
        }
      }
    }
  }
  let three_ops: Vec<Op> = vec![Op::Merge, Op::Concat, Op::Zip, Op::CombineLatest, Op::Amb];
  let three = |op: &Op| Node::opx(op.clone(), Node::Src(0), vec![Node::Src(1), Node::Src(2)]);
  fams.push((Family { name: "3 hot sources, all interleavings".into(), pipelines: three_ops.iter().map(three).collect(), worlds: Arc::new(w_hot3), oracles: oracles.clone() }, 1));
  // ---- flat_map
  let mut w_fm = vec![];
  let outer_scripts = wf_scripts(&[0, 1], if th { 3 } else { 2 }, &[Ending::Complete, Ending::Error, Ending::Silent]);
  for sc in &outer_scripts {
    w_fm.push(cold_world(sc.clone(), !rude));
    w_fm.push(hot_world(sc));
  }
  let fm_kinds = [Inner::Just10, Inner::Empty, Inner::Cold2, Inner::Err];
  fams.push((
    Family { name: "flat_map into cold inners".into(), pipelines: fm_kinds.iter().map(|k| Node::op(Op::FlatMap(*k), Node::Src(0))).collect(), worlds: Arc::new(w_fm), oracles: oracles.clone() },
    1,
  ));
  // flat_map into hot inners: outer s0 (items 0/1 select inner s1/s2)
  let mut w_fmh = vec![];
  let inner_scripts = wf_scripts(&[1], 1, &[Ending::Complete, Ending::Error, Ending::Silent]);
  // 3 outer items: a third inner subscription while two earlier ones overlap
  let outer_small = wf_scripts(&[0, 1], 3, &[Ending::Complete, Ending::Silent]);
  for o in &outer_small {
    for a in &inner_scripts {
      for b in &inner_scripts {
        for il in interleavings(&[o.clone(), offset(a, 10), offset(b, 20)]) {
          let mut acts = vec![Act::Sub(0)];
          acts.extend(il);
          w_fmh.push(World { srcs: vec![SrcKind::Hot, SrcKind::Hot, SrcKind::Hot], acts });
        }
      }
    }
  }
  fams.push((
    Family { name: "flat_map into hot inners, all interleavings".into(), pipelines: vec![Node::op(Op::FlatMap(Inner::Hot { base: 1, n: 2 }), Node::Src(0))], worlds: Arc::new(w_fmh), oracles: oracles.clone() },
    1,
  ));
  // ---- nestings with one single-source operator below (on the primary input) or above
  let mut red = reduced_ops();
  // (retry_when next to retry: the re-subscribing operators above a combining one have the failed attempt's
  // sibling inputs to let go of before the next attempt is subscribed)
  red.push(Op::RetryWhen(EPred::PayloadLt(7)));
  let mut below = vec![];
  let mut above = vec![];
  for m in &ops {
    for o in &red {
      below.push(Node::opx(m.clone(), Node::op(o.clone(), Node::Src(0)), vec![Node::Src(1)]));
      below.push(Node::opx(m.clone(), Node::Src(0), vec![Node::op(o.clone(), Node::Src(1))]));
      above.push(Node::op(o.clone(), two(m)));
    }
  }
  let w_nest: Arc<Vec<World>> = if th { w_hot2.clone() } else { Arc::new(w_hot2.iter().step_by(7).cloned().collect()) };
  fams.push((Family { name: "combining operator with a single-source operator below".into(), pipelines: below, worlds: w_nest.clone(), oracles: oracles.clone() }, 2));
  fams.push((Family { name: "combining operator with a single-source operator above".into(), pipelines: above, worlds: w_nest, oracles: oracles.clone() }, 2));
  fams
}


/// C14: the same Observable value subscribed 2..3 times — sequentially,
/// interleaved on a hot source, and under retry with differing attempts. The
/// reference instantiates an independent pipeline per subscription.
fn c14_families(th: bool, single: &[Op], last_pos: &[Op]) -> Vec<(Family, usize)> {
  let mut fams = vec![];
  let scripts = wf_scripts(&[1, 2], if th { 3 } else { 2 }, &[Ending::Complete, Ending::Error]);
  // (a) cold, one after the other: 2 and 3 subscriptions; every subscription may see a different script
  let mut w_seq = vec![];
  for a in &scripts {
    for b in &scripts {
      w_seq.push(World { srcs: vec![SrcKind::Cold { scripts: vec![a.clone(), b.clone()], polite: true }], acts: vec![Act::Sub(0), Act::Sub(1)] });
      w_seq.push(World { srcs: vec![SrcKind::Cold { scripts: vec![a.clone(), b.clone(), a.clone()], polite: true }], acts: vec![Act::Sub(0), Act::Sub(1), Act::Sub(2)] });
    }
  }
  // (b) hot, second subscription started mid-stream
  let hot_scripts = wf_scripts(&[1, 2], if th { 4 } else { 3 }, &[Ending::Complete, Ending::Error, Ending::Silent]);
  let mut w_hot = vec![];
  for sc in &hot_scripts {
    for pos in 0..=sc.len() {
      let mut acts = vec![Act::Sub(0)];
      for (i, e) in sc.iter().enumerate() {
        if i == pos {
          acts.push(Act::Sub(1));
        }
        acts.push(Act::Emit(0, e.clone()));
      }
      if pos == sc.len() {
        acts.push(Act::Sub(1));
      }
      // the same Observable value over the harness's hot source and over the crate's own subjects
      for k in [SrcKind::Hot, SrcKind::Subject, SrcKind::BehaviorSubject, SrcKind::ReplaySubject] {
        w_hot.push(World { srcs: vec![k.clone()], acts: acts.clone() });
        // first one leaves before the second arrives
        if pos > 0 {
          let mut a2 = acts.clone();
          let p = a2.iter().position(|a| *a == Act::Sub(1)).unwrap();
          a2.insert(p, Act::Unsub(0));
          w_hot.push(World { srcs: vec![k.clone()], acts: a2 });
        }
        // ... or right after the second arrived (the later subscription must be unaffected), and the other way round
        let p = acts.iter().position(|a| *a == Act::Sub(1)).unwrap();
        for leaving in [0usize, 1] {
          let mut a3 = acts.clone();
          a3.insert(p + 1, Act::Unsub(leaving));
          w_hot.push(World { srcs: vec![k.clone()], acts: a3 });
        }
      }
    }
  }
  let w_seq = Arc::new(w_seq);
  let w_hot = Arc::new(w_hot);
  fams.push((Family { name: "cold source, 2-3 subscriptions one after the other, depth 1".into(), pipelines: depth1(last_pos), worlds: w_seq.clone(), oracles: vec![Oracle::Independence] }, 1));
  fams.push((Family { name: "hot source, second subscription mid-stream, depth 1".into(), pipelines: depth1(last_pos), worlds: w_hot.clone(), oracles: vec![Oracle::Independence] }, 1));
  let w_seq_small: Arc<Vec<World>> = Arc::new(w_seq.iter().step_by(if th { 1 } else { 3 }).cloned().collect());
  let w_hot_small: Arc<Vec<World>> = Arc::new(w_hot.iter().step_by(if th { 1 } else { 4 }).cloned().collect());
  fams.push((Family { name: "cold source, 2-3 subscriptions, depth 2".into(), pipelines: depth2(single, last_pos), worlds: w_seq_small, oracles: vec![Oracle::Independence] }, 2));
  fams.push((Family { name: "hot source, second subscription mid-stream, depth 2".into(), pipelines: depth2(single, last_pos), worlds: w_hot_small, oracles: vec![Oracle::Independence] }, 2));
  // (a') the creation functions subscribed 2 and 3 times (defer / start call their function per subscription)
  let mut wl = lib_worlds(2);
  wl.extend(lib_worlds(3));
  let mut with_src = vec![Node::Src(0)];
  with_src.extend(depth1(last_pos));
  fams.push((Family { name: "creation functions subscribed 2-3 times, alone and below every operator".into(), pipelines: with_src, worlds: Arc::new(wl), oracles: vec![Oracle::Independence] }, 1));
  // (a+) one creation-function value feeds two branches of the same pipeline, one of which cuts its run
  // short: what the other branch (and the next subscription) gets must not depend on how far that one got
  {
    let cutters = [Op::Take(1), Op::Take(2), Op::First, Op::ElementAt(2), Op::TakeWhile(Pred::Lt(2)), Op::Skip(1), Op::Last];
    let mut pp = vec![];
    for c in cutters.iter() {
      let cut = Node::op(c.clone(), Node::Src(0));
      pp.push(Node::opx(Op::Concat, cut.clone(), vec![Node::Src(0)]));
      pp.push(Node::opx(Op::Concat, Node::Src(0), vec![cut.clone()]));
      pp.push(Node::opx(Op::Merge, cut.clone(), vec![Node::Src(0)]));
      pp.push(Node::opx(Op::Zip, cut.clone(), vec![Node::Src(0)]));
      pp.push(Node::op(Op::Retry(2), Node::opx(Op::Concat, cut.clone(), vec![Node::Src(0)])));
    }
    let mut wl2 = lib_worlds(1);
    wl2.extend(lib_worlds(2));
    wl2.extend(lib_worlds(3));
    fams.push((Family { name: "one creation-function value feeds two branches of a pipeline, one cut short; 1-3 subscriptions".into(), pipelines: pp, worlds: Arc::new(wl2), oracles: vec![Oracle::Independence] }, 2));
    // ... and one branch shares the value through ref_count(): a connection that runs to its terminal leaves
    // the value as it was for the other branch (one subscription of the whole: what ref_count() does for a
    // second one after its source has terminated is C13's)
    let rc = Node::op(Op::RefCount, Node::Src(0));
    let pr = vec![
      Node::opx(Op::Concat, rc.clone(), vec![Node::Src(0)]),
      Node::opx(Op::Concat, Node::Src(0), vec![rc.clone()]),
      Node::opx(Op::Merge, rc.clone(), vec![Node::Src(0)]),
      Node::opx(Op::Zip, rc.clone(), vec![Node::Src(0)]),
      Node::opx(Op::Concat, Node::op(Op::Map(MapF::Inc), rc.clone()), vec![Node::op(Op::Map(MapF::Dbl), Node::Src(0))]),
    ];
    fams.push((Family { name: "one creation-function value feeds a ref_count() branch and a plain branch".into(), pipelines: pr, worlds: Arc::new(lib_worlds(1)), oracles: vec![Oracle::Independence] }, 2));
  }
  // (a'') nested: the first subscriber's callback subscribes again to the same Observable value
  let mut w_nest = vec![];
  for sc in wf_scripts(&[1, 2], 2, &[Ending::Complete, Ending::Error]) {
    for trig in [Trig::Item(1), Trig::Item(2), Trig::Complete, Trig::Error] {
      let decl = Act::Nest { outer: 0, trig, inner: 1 };
      w_nest.push(World { srcs: vec![SrcKind::Cold { scripts: vec![sc.clone()], polite: true }], acts: vec![decl.clone(), Act::Sub(0)] });
      let mut acts = vec![decl.clone(), Act::Sub(0)];
      acts.extend(sc.iter().map(|e| Act::Emit(0, e.clone())));
      w_nest.push(World { srcs: vec![SrcKind::Hot], acts: acts.clone() });
      w_nest.push(World { srcs: vec![SrcKind::Subject], acts: acts.clone() });
      // the source goes on after its terminal: a subscription made from inside the
      // terminal's notification is a subscription like any other
      if matches!(trig, Trig::Complete | Trig::Error) {
        for post in [vec![Ev::n(1)], vec![Ev::n(2), Ev::C], vec![Ev::E(3)]] {
          let mut a2 = acts.clone();
          a2.extend(post.iter().map(|e| Act::Emit(0, e.clone())));
          w_nest.push(World { srcs: vec![SrcKind::Hot], acts: a2.clone() });
          w_nest.push(World { srcs: vec![SrcKind::Subject], acts: a2 });
        }
      }
    }
  }
  let w_nest = Arc::new(w_nest);
  fams.push((Family { name: "nested: a callback subscribes again to the same Observable value, depth 1".into(), pipelines: depth1(last_pos), worlds: w_nest.clone(), oracles: vec![Oracle::Independence] }, 1));
  fams.push((Family { name: "nested, depth 2 (reduced catalogue)".into(), pipelines: depth2(&reduced_ops(), &reduced_ops()), worlds: w_nest.clone(), oracles: vec![Oracle::Independence] }, 2));
  {
    let two = |op: &Op| Node::opx(op.clone(), Node::Src(0), vec![Node::Src(0)]);
    let mp: Vec<Node> = multi_ops().iter().map(two).collect();
    // not over the crate's Subject: the order in which a Subject notifies two
    // subscriptions of the same pipeline is its HashMap's, which nothing fixes
    let w_no_subject: Vec<World> = w_nest.iter().filter(|w| w.srcs[0] != SrcKind::Subject).cloned().collect();
    fams.push((Family { name: "nested, combining operators over one source used twice".into(), pipelines: mp, worlds: Arc::new(w_no_subject), oracles: vec![Oracle::Independence] }, 1));
  }
  // (a-tap) nested from inside an operator's own user code: tap's next side effect subscribes again
  {
    let mut w_tap = vec![];
    for sc in wf_scripts(&[1, 2], 2, &[Ending::Complete, Ending::Error]) {
      let decl = Act::NestFromTap { inner: 1 };
      w_tap.push(World { srcs: vec![SrcKind::Cold { scripts: vec![sc.clone()], polite: true }], acts: vec![decl.clone(), Act::Sub(0)] });
      for k in [SrcKind::Hot, SrcKind::Subject] {
        let mut acts = vec![decl.clone(), Act::Sub(0)];
        acts.extend(sc.iter().map(|e| Act::Emit(0, e.clone())));
        w_tap.push(World { srcs: vec![k], acts });
      }
    }
    let red = reduced_ops();
    let mut p_tap = depth1(&[Op::Tap]);
    p_tap.extend(depth2(&red, &[Op::Tap]));
    p_tap.extend(depth2(&[Op::Tap], &red));
    fams.push((Family { name: "nested: tap's own side effect subscribes again to the same Observable value".into(), pipelines: p_tap, worlds: Arc::new(w_tap), oracles: vec![Oracle::Independence] }, 2));
  }
  // (c) every operator under retry: attempts differ
  let attempts: Vec<Vec<Ev>> = vec![vec![Ev::E(1)], vec![Ev::n(1), Ev::E(2)], vec![Ev::n(1), Ev::n(2), Ev::E(3)], vec![Ev::n(2), Ev::C], vec![Ev::C], vec![Ev::n(1), Ev::n(1), Ev::C]];
  let mut w_retry = vec![];
  for a in &attempts {
    for b in &attempts {
      for c in &attempts {
        w_retry.push(World { srcs: vec![SrcKind::Cold { scripts: vec![a.clone(), b.clone(), c.clone()], polite: true }], acts: vec![Act::Sub(0)] });
      }
    }
  }
  let under_retry: Vec<Node> = single
    .iter()
    .flat_map(|o| vec![Node::op(Op::Retry(3), Node::op(o.clone(), Node::Src(0))), Node::op(Op::Retry(2), Node::op(o.clone(), Node::Src(0)))])
    .collect();
  fams.push((Family { name: "every operator under retry, attempts differ".into(), pipelines: under_retry, worlds: Arc::new(w_retry), oracles: vec![Oracle::Independence] }, 1));
  // (d) combining operators subscribed twice (cold inputs)
  let per: Vec<Vec<Ev>> = wf_scripts(&[1, 2], 2, &[Ending::Complete, Ending::Error]);
  // every subscription of a source sees the same script here: how often a
  // combining operator subscribes an input it no longer needs is not fixed by
  // the statement, so per-subscription scripts would let the reference and
  // the crate legitimately disagree on which script comes next
  let mut w_m = vec![];
  for a in &per {
    for b in &per {
      let b10 = offset(b, 10);
      for n in [2usize, 3] {
        w_m.push(World {
          srcs: vec![SrcKind::Cold { scripts: vec![a.clone()], polite: true }, SrcKind::Cold { scripts: vec![b10.clone()], polite: true }],
          acts: (0..n).map(Act::Sub).collect(),
        });
      }
    }
  }
  let two = |op: &Op| Node::opx(op.clone(), Node::Src(0), vec![Node::Src(1)]);
  // (d') hot inputs: a second subscription (while the first is live, or after it ended) whose
  // inputs signal in a different order than they did for the first
  {
    let phase = |k: i64| -> Vec<Vec<Act>> {
      let mut v = interleavings(&[vec![Ev::n(1 + k), Ev::C], vec![Ev::n(11 + k), Ev::C]]);
      v.extend(interleavings(&[vec![Ev::n(1 + k)], vec![Ev::n(11 + k)]]));
      v
    };
    let mut w_h = vec![];
    for p1 in phase(0) {
      for p2 in phase(1) {
        let ends = p1.iter().filter(|a| matches!(a, Act::Emit(_, Ev::C))).count() == 2;
        let mut acts = vec![Act::Sub(0)];
        acts.extend(p1.clone());
        if !ends {
          // both alive, and first one unsubscribed before the second arrives
          let mut a2 = acts.clone();
          a2.push(Act::Unsub(0));
          a2.push(Act::Sub(1));
          a2.extend(p2.clone());
          w_h.push(World { srcs: vec![SrcKind::Hot, SrcKind::Hot], acts: a2 });
        }
        acts.push(Act::Sub(1));
        acts.extend(p2.clone());
        w_h.push(World { srcs: vec![SrcKind::Hot, SrcKind::Hot], acts });
      }
    }
    let mut mp: Vec<Node> = multi_ops().iter().map(two).collect();
    mp.push(Node::op(Op::FlatMap(Inner::Hot { base: 1, n: 1 }), Node::Src(0)));
    fams.push((Family { name: "combining operators over hot inputs, second subscription sees a different arrival order".into(), pipelines: mp, worlds: Arc::new(w_h), oracles: vec![Oracle::Independence] }, 1));
  }
  let mut mp: Vec<Node> = multi_ops().iter().map(two).collect();
  for k in [Inner::Just10, Inner::Cold2, Inner::Err, Inner::Empty] {
    mp.push(Node::op(Op::FlatMap(k), Node::Src(0)));
  }
  fams.push((Family { name: "combining operators subscribed 2-3 times".into(), pipelines: mp, worlds: Arc::new(w_m), oracles: vec![Oracle::Independence] }, 1));
  fams
}


/// C07's single-threaded clause: a fixed slice of the sequential spaces is run
/// under the lock monitor; every self-deadlock / panic seen there is a C07 finding.
pub fn c07_slice(r: &mut Report, tier: &str) {
  let th = thorough(tier);
  let single = single_ops(th);
  let mut last_pos = single.clone();
  last_pos.extend(direct_ops(th));
  let scripts = wf_scripts(&[1, 2], 2, &[Ending::Complete, Ending::Error, Ending::Silent]);
  let mut w = vec![];
  for sc in &scripts {
    w.push(hot_world(sc));
    w.push(cold_world(sc.clone(), true));
    for pos in 0..=sc.len() {
      let mut acts = vec![Act::Sub(0)];
      for (i, e) in sc.iter().enumerate() {
        if i == pos {
          acts.push(Act::Unsub(0));
        }
        acts.push(Act::Emit(0, e.clone()));
      }
      if pos == sc.len() {
        acts.push(Act::Unsub(0));
      }
      w.push(World { srcs: vec![SrcKind::Subject], acts });
    }
  }
  // callbacks that subscribe again to the Observable value they are being called from
  for sc in wf_scripts(&[1, 2], 2, &[Ending::Complete, Ending::Error]) {
    for trig in [Trig::Item(1), Trig::Complete, Trig::Error] {
      let decl = Act::Nest { outer: 0, trig, inner: 1 };
      w.push(World { srcs: vec![SrcKind::Cold { scripts: vec![sc.clone()], polite: true }], acts: vec![decl.clone(), Act::Sub(0)] });
      let mut acts = vec![decl, Act::Sub(0)];
      acts.extend(sc.iter().map(|e| Act::Emit(0, e.clone())));
      w.push(World { srcs: vec![SrcKind::Subject], acts });
    }
  }
  let w = Arc::new(w);
  let mut fams = vec![
    (Family { name: "monitor slice: depth 1".into(), pipelines: depth1(&last_pos), worlds: w.clone(), oracles: vec![] }, 1),
    (Family { name: "monitor slice: depth 2".into(), pipelines: depth2(&single, &last_pos), worlds: w.clone(), oracles: vec![] }, 2),
  ];
  for (mut f, d) in multi_families(false, false, vec![]) {
    f.name = format!("monitor slice: {}", f.name);
    fams.push((f, d));
  }
  // ref_count() whose source emits synchronously while it connects, re-subscribed from a callback of the
  // subscriber that made it connect (the second subscribe runs inside the first one's on_subscribe hook)
  {
    let wn: Vec<World> = w.iter().filter(|x| x.acts.iter().any(|a| matches!(a, Act::Nest { .. })) && matches!(x.srcs[0], SrcKind::Cold { .. })).cloned().collect();
    fams.push((Family { name: "monitor slice: ref_count() over a synchronous source, re-subscribed from a callback".into(), pipelines: connectable_pipelines(false), worlds: Arc::new(wn), oracles: vec![] }, 2));
  }
  // combining operators over cold sources whose subscriber re-subscribes the same Observable value from a callback
  {
    let per = wf_scripts(&[1], 1, &[Ending::Complete, Ending::Error]);
    let mut wn = vec![];
    for a in &per {
      for b in &per {
        for trig in [Trig::Item(1), Trig::Complete, Trig::Error] {
          wn.push(World {
            srcs: vec![SrcKind::Cold { scripts: vec![a.clone()], polite: true }, SrcKind::Cold { scripts: vec![offset(b, 10)], polite: true }],
            acts: vec![Act::Nest { outer: 0, trig, inner: 1 }, Act::Sub(0)],
          });
        }
      }
    }
    let two = |op: &Op| Node::opx(op.clone(), Node::Src(0), vec![Node::Src(1)]);
    let mut mp: Vec<Node> = multi_ops_all().iter().map(two).collect();
    for k in [Inner::Just10, Inner::Cold2, Inner::Err, Inner::Empty] {
      mp.push(Node::op(Op::FlatMap(k), Node::Src(0)));
    }
    fams.push((Family { name: "monitor slice: combining operators re-subscribed from a callback".into(), pipelines: mp, worlds: Arc::new(wn), oracles: vec![] }, 1));
  }
  // callbacks that re-enter the library on the same thread: push into a source the pipeline is fed
  // from (either input of a combining operator), unsubscribe their own subscription, end an inner observable
  for (mut f, d) in feedback_families(th, &last_pos, vec![]).into_iter().chain(self_unsub_families(th, &last_pos, vec![])).chain(inner_unsub_families(th, vec![])) {
    if f.name.starts_with("a callback of the subscriber panics") {
      // C07's premise is "provided user callbacks return"
      continue;
    }
    if f.name.starts_with("user code inside") {
      // C07 speaks of (notification) callbacks that re-enter the library; an Item::clone or an operator's
      // function (an accumulator, a predicate, a selector) that does is C01's business only (the contract
      // must survive it), not a promise about the library's locks: scan and reduce, for one, call the
      // accumulator inside their read-modify-write section - by design
      continue;
    }
    f.name = format!("monitor slice: {}", f.name);
    fams.push((f, d));
  }
  let stop = AtomicBool::new(false);
  let mut per = vec![];
  for (f, depth) in fams {
    let st = run_family("C07", &f, depth, &stop);
    fold_stats(r, &f.name, st, &mut per);
  }
  r.extra.push(("monitor_slice_families".to_string(), J::A(per)));
}
