//! C07 — no call into the library blocks forever: a catalogue of concurrent
//! scenarios over every operator that owns shared state (engine T; oracle =
//! the runtime's deadlock / self-deadlock / livelock classification), and a
//! single-threaded re-entrancy catalogue under the lock monitor (engine S).
use crate::json::{obj, s, J};
use crate::report::{Finding, Report};
use crate::tcommon::*;
use another_rxrust::prelude::*;
use another_rxrust::vstd::thread;
use rxverif_rt::exec::{payload_to_string, set_monitor_mode, ExecEnd, SelfDeadlock};
use rxverif_rt::explore::{Body, Check, Verdict};
use std::panic::{catch_unwind, AssertUnwindSafe};
use std::sync::{Arc, Mutex};

fn nt() -> fn() -> schedulers::NewThreadScheduler<'static> {
  schedulers::new_thread_scheduler()
}

/// generic shape: `setup` builds everything on the main thread and returns the
/// closures the other threads run
fn conc_scn<F>(name: &str, q: Option<u32>, t: Option<u32>, setup: F) -> Scn
where
  F: Fn(&Rec) -> Vec<Box<dyn FnOnce() + Send>> + Send + Sync + Clone + 'static,
{
  scn(name, "blocking", q, t, move || {
    let rec = Rec::new();
    let rec2 = rec.clone();
    let setup = setup.clone();
    let body: Body = Box::new(move || {
      let mut fs = setup(&rec2);
      let main_part = if fs.is_empty() { None } else { Some(fs.remove(0)) };
      let hs: Vec<_> = fs.into_iter().map(|f| thread::spawn(f)).collect();
      if let Some(m) = main_part {
        m();
      }
      for h in hs {
        let _ = h.join();
      }
    });
    let check: Check = Box::new(move |e: &ExecEnd| {
      let v = base_violations(e, &[]);
      Verdict { outcome: format!("{} | {}", rec.short(), thread_summary(e)), violations: v }
    });
    (body, check)
  })
}

type Th = Box<dyn FnOnce() + Send>;

pub fn scenarios() -> Vec<Scn> {
  let mut v = vec![];
  // ---- the four subject types: producer || subscriber || unsubscriber
  for kind in [SubjKind::Plain, SubjKind::Behavior, SubjKind::Replay, SubjKind::Async] {
    v.push(conc_scn(&format!("c07/{:?}Subject P(1,2,C) || subscribe || unsubscribe", kind), Some(2), Some(3), move |rec| {
      let sbj = AnySubject::new(kind);
      let sub0 = rec.sub_i64(&sbj.observable());
      let (s1, s2, r2) = (sbj.clone(), sbj.clone(), rec.clone());
      vec![
        Box::new(move || {
          s1.next(1);
          s1.next(2);
          s1.complete();
        }) as Th,
        Box::new(move || {
          let _s = r2.sub_i64(&s2.observable());
        }),
        Box::new(move || sub0.unsubscribe()),
      ]
    }));
    v.push(conc_scn(&format!("c07/{:?}Subject two observers, P(1,E) || unsubscribe_1 || unsubscribe_2", kind), Some(2), Some(3), move |rec| {
      let sbj = AnySubject::new(kind);
      let a = rec.sub_i64(&sbj.observable());
      let b = rec.sub_i64(&sbj.observable().map(|x| x));
      let s1 = sbj.clone();
      vec![
        Box::new(move || {
          s1.next(1);
          s1.error(err(7));
        }) as Th,
        Box::new(move || a.unsubscribe()),
        Box::new(move || b.unsubscribe()),
      ]
    }));
  }
  // ---- combining operators: two producers || unsubscribe
  type B2 = Arc<dyn Fn(&Hot<i64>, &Hot<i64>) -> Observable<'static, i64> + Send + Sync>;
  let combs: Vec<(&str, B2)> = vec![
    ("merge", Arc::new(|a, b| a.observable().merge(&[b.observable()]))),
    ("zip", Arc::new(|a, b| a.observable().zip(&[b.observable()]).map(|v| v.iter().sum()))),
    ("amb", Arc::new(|a, b| a.observable().amb(&[b.observable()]))),
    ("concat", Arc::new(|a, b| a.observable().concat(&[b.observable()]))),
    ("combine_latest", Arc::new(|a, b| a.observable().combine_latest(&[b.observable()], |v| v.iter().sum()))),
    ("flat_map", Arc::new(|a, b| {
      let (a, b) = (a.clone(), b.clone());
      observables::from_iter(0..2).flat_map(move |i| if i == 0 { a.observable() } else { b.observable() })
    })),
    ("take_until", Arc::new(|a, b| a.observable().take_until(b.observable()))),
    ("skip_until", Arc::new(|a, b| a.observable().skip_until(b.observable()))),
    ("sample", Arc::new(|a, b| a.observable().sample(b.observable()))),
    ("sequence_equal", Arc::new(|a, b| a.observable().sequence_equal(&[b.observable()]).map(|x| x as i64))),
    ("switch_on_next", Arc::new(|a, b| a.observable().switch_on_next(b.observable()))),
  ];
  for (name, b) in combs {
    let core = matches!(name, "merge" | "zip" | "amb" | "flat_map");
    v.push(conc_scn(&format!("c07/{} P_A(1,2,C) || P_B(3,E) || unsubscribe", name), Some(if core { 2 } else { 1 }), Some(if core { 3 } else { 2 }), move |rec| {
      let (ha, hb) = (Hot::<i64>::new(), Hot::<i64>::new());
      let sub = rec.sub_i64(&b(&ha, &hb));
      vec![
        Box::new(move || {
          ha.next(1);
          ha.next(2);
          ha.complete();
        }) as Th,
        Box::new(move || {
          hb.next(3);
          hb.error(err(7));
        }),
        Box::new(move || sub.unsubscribe()),
      ]
    }));
  }
  // ---- stateful single-source operators over a Subject fed by two producers || unsubscribe
  type B1 = Arc<dyn Fn(Observable<'static, i64>) -> Observable<'static, i64> + Send + Sync>;
  let singles: Vec<(&str, B1)> = vec![
    ("take(2)", Arc::new(|o| o.take(2))),
    ("skip(1)", Arc::new(|o| o.skip(1))),
    ("scan", Arc::new(|o| o.scan(|(a, b)| a + b))),
    ("buffer_with_count(2)", Arc::new(|o| o.buffer_with_count(2).map(|v| v.iter().sum()))),
    ("window_with_count(2)", Arc::new(|o| o.window_with_count(2).flat_map(|w| w))),
    ("group_by", Arc::new(|o| o.group_by(|x| x % 2).flat_map(|w| w))),
    ("distinct_until_changed", Arc::new(|o| o.distinct_until_changed())),
    ("take_last(1)", Arc::new(|o| o.take_last(1))),
    ("skip_last(1)", Arc::new(|o| o.skip_last(1))),
    ("reduce", Arc::new(|o| o.reduce(|(a, b)| a + b))),
    ("default_if_empty", Arc::new(|o| o.default_if_empty(5))),
    ("retry(2)", Arc::new(|o| o.retry(2))),
    ("on_error_resume_next", Arc::new(|o| o.on_error_resume_next(|_| observables::just(9)))),
    ("tap", Arc::new(|o| o.tap(|_| {}, |_| {}, || {}))),
    ("delay(0)", Arc::new(|o| o.delay(ms(0)))),
    // the aggregates and the remaining operators with state of their own (two locks taken in opposite
    // orders by the item path and the terminal path is the classic: seed C07-j)
    ("sum", Arc::new(|o| o.sum())),
    ("min", Arc::new(|o| o.min())),
    ("max", Arc::new(|o| o.max())),
    ("count", Arc::new(|o| o.count().map(|n| n as i64))),
    ("sum_and_count", Arc::new(|o| o.sum_and_count().map(|(s, n)| s * 100 + n as i64))),
    ("last", Arc::new(|o| o.last())),
    ("first", Arc::new(|o| o.first())),
    ("element_at(2)", Arc::new(|o| o.element_at(2))),
    ("skip_while", Arc::new(|o| o.skip_while(|x| x < 2))),
    ("take_while", Arc::new(|o| o.take_while(|x| x < 3))),
    ("contains", Arc::new(|o| o.contains(3).map(|b| b as i64))),
    ("all", Arc::new(|o| o.all(|x| x < 3).map(|b| b as i64))),
    ("start_with", Arc::new(|o| o.start_with([7i64].into_iter()))),
    ("materialize.dematerialize", Arc::new(|o| o.materialize().dematerialize())),
    ("time_interval", Arc::new(|o| o.time_interval().map(|_| 0i64))),
    ("ignore_elements", Arc::new(|o| o.ignore_elements())),
  ];
  for (name, b) in singles {
    let core = matches!(name, "take(2)" | "scan" | "window_with_count(2)" | "group_by" | "sum" | "min" | "max" | "count" | "sum_and_count" | "last" | "reduce" | "take_last(1)" | "skip_last(1)" | "buffer_with_count(2)" | "distinct_until_changed" | "default_if_empty");
    v.push(conc_scn(&format!("c07/Subject.{} P_A(1,2) || P_B(3,C) || unsubscribe", name), if core { Some(2) } else { Some(1) }, Some(if core { 3 } else { 2 }), move |rec| {
      let sbj = subjects::Subject::<i64>::new();
      let sub = rec.sub_i64(&b(sbj.observable()));
      let (s1, s2) = (sbj.clone(), sbj.clone());
      vec![
        Box::new(move || {
          s1.next(1);
          s1.next(2);
        }) as Th,
        Box::new(move || {
          s2.next(3);
          s2.complete();
        }),
        Box::new(move || sub.unsubscribe()),
      ]
    }));
  }
  // ---- connectables
  v.push(conc_scn("c07/publish: connect || subscribe || P(1,C)", Some(2), Some(3), |rec| {
    let h = Hot::<i64>::new();
    let p = h.observable().publish();
    let (p1, p2, r2) = (p.clone(), p.clone(), rec.clone());
    vec![
      Box::new(move || {
        let c = p1.connect();
        c.unsubscribe();
      }) as Th,
      Box::new(move || {
        let _s = r2.sub_i64(&p2.observable());
      }),
      Box::new(move || {
        h.next(1);
        h.complete();
      }),
    ]
  }));
  for which in ["ref_count", "replay"] {
    v.push(conc_scn(&format!("c07/{}: subscribe_1 || subscribe_2+unsubscribe_2 || P(1,C)", which), Some(2), Some(3), move |rec| {
      let h = Hot::<i64>::new();
      let o = if which == "ref_count" { h.observable().ref_count().observable() } else { h.observable().replay().observable() };
      let (o1, o2, r1, r2) = (o.clone(), o.clone(), rec.clone(), rec.clone());
      vec![
        Box::new(move || {
          let _s = r1.sub_i64(&o1);
        }) as Th,
        Box::new(move || {
          let s2 = r2.sub_i64(&o2);
          s2.unsubscribe();
        }),
        Box::new(move || {
          h.next(1);
          h.complete();
        }),
      ]
    }));
    v.push(conc_scn(&format!("c07/{}: subscribe+unsubscribe || subscribe+unsubscribe (connect/disconnect race)", which), Some(2), Some(3), move |rec| {
      let h = Hot::<i64>::new();
      let o = if which == "ref_count" { h.observable().ref_count().observable() } else { h.observable().replay().observable() };
      let (o1, o2, r1, r2) = (o.clone(), o.clone(), rec.clone(), rec.clone());
      vec![
        Box::new(move || {
          let s = r1.sub_i64(&o1);
          s.unsubscribe();
        }) as Th,
        Box::new(move || {
          let s2 = r2.sub_i64(&o2);
          s2.unsubscribe();
        }),
      ]
    }));
  }
  // ---- schedulers
  v.push(conc_scn("c07/observe_on: P(1,2,C) || unsubscribe", Some(2), Some(3), |rec| {
    let h = Hot::<i64>::new();
    let sub = rec.sub_i64(&h.observable().observe_on(nt()));
    vec![
      Box::new(move || {
        h.next(1);
        h.next(2);
        h.complete();
      }) as Th,
      Box::new(move || sub.unsubscribe()),
    ]
  }));
  v.push(conc_scn("c07/observe_on: a callback unsubscribes its own subscription", Some(2), Some(3), |_rec| {
    let h = Hot::<i64>::new();
    let slot: Arc<Mutex<Option<Subscription<'static>>>> = Arc::new(Mutex::new(None));
    let s2 = slot.clone();
    let sub = h.observable().observe_on(nt()).subscribe(
      move |_| {
        let s = s2.lock().unwrap().clone();
        if let Some(s) = s {
          s.unsubscribe();
        }
      },
      |_| {},
      || {},
    );
    *slot.lock().unwrap() = Some(sub.clone());
    vec![
      Box::new(move || {
        h.next(1);
        h.next(2);
      }) as Th,
      Box::new(move || {
        thread::sleep(ms(5));
        sub.unsubscribe();
      }),
    ]
  }));
  v.push(conc_scn("c07/subscribe_on: synchronous source || unsubscribe", Some(2), Some(3), |rec| {
    let c = Causes::new();
    let src = sync_source("a", vec![Emit::N(1), Emit::N(2), Emit::C], c);
    let sub = rec.sub_i64(&src.subscribe_on(nt()));
    vec![Box::new(move || sub.unsubscribe()) as Th]
  }));
  v.push(conc_scn("c07/interval.take(2) || unsubscribe", Some(2), Some(3), |rec| {
    let sub = rec.subscribe(&observables::interval(ms(10), nt()).take(2), |x| x as i64);
    vec![Box::new(move || {
      thread::sleep(ms(20));
      sub.unsubscribe();
    }) as Th]
  }));
  v.push(conc_scn("c07/timeout: P(1,2) || unsubscribe", Some(1), Some(2), |rec| {
    let h = Hot::<i64>::new();
    let sub = rec.sub_i64(&h.observable().timeout(ms(10), nt()));
    vec![
      Box::new(move || {
        h.next(1);
        thread::sleep(ms(10));
        h.next(2);
      }) as Th,
      Box::new(move || {
        thread::sleep(ms(10));
        sub.unsubscribe();
      }),
    ]
  }));
  v.push(conc_scn("c07/debounce: P(1,2,C) || unsubscribe", Some(1), Some(2), |rec| {
    let h = Hot::<i64>::new();
    let sub = rec.sub_i64(&h.observable().debounce(ms(10), nt()));
    vec![
      Box::new(move || {
        h.next(1);
        thread::sleep(ms(10));
        h.next(2);
        h.complete();
      }) as Th,
      Box::new(move || {
        thread::sleep(ms(10));
        sub.unsubscribe();
      }),
    ]
  }));
  // feedback through the scheduler-based operators: the callback of the first item, running on
  // the operator's worker thread, emits into / completes the subject that feeds the operator
  for op in ["observe_on", "debounce", "timeout", "sample", "delay"] {
    for terminal in [false, true] {
      let name = format!("c07/Subject.{}: the callback of the first item calls {} on the subject, then unsubscribe", op, if terminal { "complete" } else { "next" });
      let mut sc = conc_scn(&name, Some(1), Some(2), move |rec| {
        let sbj = subjects::Subject::<i64>::new();
        let o = match op {
          "observe_on" => sbj.observable().observe_on(nt()),
          "debounce" => sbj.observable().debounce(ms(5), nt()),
          "delay" => sbj.observable().delay(ms(5)),
          "timeout" => sbj.observable().timeout(ms(50), nt()),
          _ => sbj.observable().sample(observables::interval(ms(5), nt())),
        };
        let (r_n, r_e, r_c) = (rec.clone(), rec.clone(), rec.clone());
        let sbj_cb = sbj.clone();
        let fired = Arc::new(Mutex::new(false));
        let sub = o.subscribe(
          move |x: i64| {
            r_n.cb(EvK::Next(x));
            let first = {
              let mut f = fired.lock().unwrap();
              let was = *f;
              *f = true;
              !was
            };
            if first {
              if terminal {
                sbj_cb.complete()
              } else {
                sbj_cb.next(x + 10)
              }
            }
          },
          move |e| r_e.cb(EvK::Error(err_code(&e))),
          move || r_c.cb(EvK::Complete),
        );
        vec![Box::new(move || {
          sbj.next(1);
          thread::sleep(ms(30));
          sub.unsubscribe();
        }) as Th]
      });
      if op == "delay" {
        // delay waits on the emitting thread: one thread, one schedule - the feedback nests
        sc.min_conflicts = 0;
      }
      v.push(sc);
    }
  }
  v
}

// ------------------------------------------------- re-entrancy (engine S)

#[derive(Clone, Copy, Debug, PartialEq)]
enum Reenter {
  UnsubscribeSelf,
  NextOnSameSubject,
  SubscribeAnother,
  CompleteSameSubject,
}

fn reentry_case(kind: SubjKind, via: &str, what: Reenter, during_replay: bool) -> Result<String, String> {
  let log: Arc<Mutex<Vec<String>>> = Arc::new(Mutex::new(vec![]));
  set_monitor_mode(true);
  let l0 = log.clone();
  let via = via.to_string();
  let r = catch_unwind(AssertUnwindSafe(move || {
    let sbj = AnySubject::new(kind);
    // second input of the combining operators: a plain subject, fed before the first item
    let other = subjects::Subject::<i64>::new();
    let o = match via.as_str() {
      "zip[b]" => sbj.observable().zip(&[other.observable()]).map(|v| v[0]),
      "combine_latest[b]" => sbj.observable().combine_latest(&[other.observable()], |v| v[0]),
      "merge[b]" => sbj.observable().merge(&[other.observable()]),
      "amb[b]" => sbj.observable().amb(&[other.observable()]),
      "concat[b]" => sbj.observable().concat(&[other.observable()]),
      "take_until[b]" => sbj.observable().take_until(other.observable()),
      "skip_until[b]" => sbj.observable().skip_until(other.observable()),
      "sample[b] (callback runs inside b.next)" => sbj.observable().sample(other.observable()),
      "sequence_equal[b]" => sbj.observable().sequence_equal(&[other.observable()]).map(|b| b as i64 + 1),
      "switch_on_next[b]" => sbj.observable().switch_on_next(other.observable()),
      "flat_map(just)" => sbj.observable().flat_map(|x| observables::just(x)),
      "flat_map(b)" => {
        let o2 = other.clone();
        sbj.observable().flat_map(move |_| o2.observable())
      }
      "take_last(2)" => sbj.observable().take_last(2),
      "skip_last(1)" => sbj.observable().skip_last(1),
      "reduce" => sbj.observable().reduce(|(a, b)| a + b),
      "retry(2)" => sbj.observable().retry(2),
      "tap" => sbj.observable().tap(|_| {}, |_| {}, || {}),
      "start_with" => sbj.observable().start_with(vec![1i64].into_iter()),
      "default_if_empty" => sbj.observable().default_if_empty(1),
      "filter" => sbj.observable().filter(|_| true),
      "direct" => sbj.observable(),
      "map" => sbj.observable().map(|x| x),
      "scan" => sbj.observable().scan(|(a, b)| a + b),
      "take(3)" => sbj.observable().take(3),
      "window_with_count(2)" => sbj.observable().window_with_count(2).flat_map(|w| w),
      "buffer_with_count(1)" => sbj.observable().buffer_with_count(1).map(|v| v[0]),
      "distinct_until_changed" => sbj.observable().distinct_until_changed(),
      "group_by" => sbj.observable().group_by(|x| x % 2).flat_map(|w| w),
      "merge" => sbj.observable().merge(&[observables::never()]),
      "observe_on(default)" => sbj.observable().observe_on(schedulers::default_scheduler()),
      _ => sbj.observable(),
    };
    if during_replay {
      // the first callback then happens while the subject hands over its history
      sbj.next(1);
    }
    let slot: Arc<Mutex<Option<Subscription<'static>>>> = Arc::new(Mutex::new(None));
    let (s2, sb2, l1, l2, l3) = (slot.clone(), sbj.clone(), l0.clone(), l0.clone(), l0.clone());
    let fired = Arc::new(Mutex::new(false));
    let sub = o.subscribe(
      move |x| {
        l1.lock().unwrap().push(format!("n{}", x));
        let first = {
          let mut f = fired.lock().unwrap();
          let was = *f;
          *f = true;
          !was
        };
        if first && x == 1 {
          match what {
            Reenter::UnsubscribeSelf => {
              let s = s2.lock().unwrap().clone();
              if let Some(s) = s {
                s.unsubscribe()
              }
            }
            Reenter::NextOnSameSubject => sb2.next(5),
            Reenter::CompleteSameSubject => sb2.complete(),
            Reenter::SubscribeAnother => {
              let l = l1.clone();
              let _ = sb2.observable().subscribe(move |y| l.lock().unwrap().push(format!("m{}", y)), |_| {}, || {});
            }
          }
        }
      },
      move |_| l2.lock().unwrap().push("E".into()),
      move || l3.lock().unwrap().push("C".into()),
    );
    *slot.lock().unwrap() = Some(sub);
    match via.as_str() {
      "zip[b]" | "combine_latest[b]" | "skip_until[b]" => other.next(1),
      "sequence_equal[b]" => other.next(2),
      _ => {}
    }
    if !during_replay {
      sbj.next(1);
    }
    match via.as_str() {
      "sample[b] (callback runs inside b.next)" | "flat_map(b)" => other.next(1),
      _ => {}
    }
    sbj.next(2);
    other.next(3);
    other.complete();
    sbj.complete();
  }));
  set_monitor_mode(false);
  let seen = log.lock().unwrap().join(" ");
  match r {
    Ok(()) => Ok(seen),
    Err(p) => Err(match p.downcast_ref::<SelfDeadlock>() {
      Some(sd) => format!("self-deadlock: {} (after {})", sd.what, seen),
      None => format!("panic: {} (after {})", payload_to_string(&*p), seen),
    }),
  }
}

fn sync_connectable_case(which: &str, downstream: &str) -> Result<String, String> {
  let log: Arc<Mutex<Vec<String>>> = Arc::new(Mutex::new(vec![]));
  set_monitor_mode(true);
  let (l1, l2) = (log.clone(), log.clone());
  let (which, downstream) = (which.to_string(), downstream.to_string());
  let r = catch_unwind(AssertUnwindSafe(move || {
    let src = observables::from_iter(0..5i64);
    let o = match which.as_str() {
      "ref_count" => src.ref_count().observable(),
      "replay" => src.replay().observable(),
      _ => {
        let p = src.publish();
        let o = p.observable();
        // connect from inside the first subscriber is not possible; connect after subscribing below
        let _ = p;
        o
      }
    };
    let o = match downstream.as_str() {
      "take(1)" => o.take(1),
      "first" => o.first(),
      "take_while(<1)" => o.take_while(|x| x < 1),
      "element_at(2)" => o.element_at(2),
      "contains(1)" => o.contains(1).map(|b| b as i64),
      _ => o,
    };
    let _s = o.subscribe(move |x| l1.lock().unwrap().push(format!("n{}", x)), |_| {}, move || l2.lock().unwrap().push("C".into()));
  }));
  set_monitor_mode(false);
  let seen = log.lock().unwrap().join(" ");
  match r {
    Ok(()) => Ok(seen),
    Err(p) => Err(match p.downcast_ref::<SelfDeadlock>() {
      Some(sd) => format!("self-deadlock: {} (after {})", sd.what, seen),
      None => format!("panic: {} (after {})", payload_to_string(&*p), seen),
    }),
  }
}

pub fn reentrancy(r: &mut Report) {
  let vias = [
    "direct", "map", "scan", "take(3)", "window_with_count(2)", "buffer_with_count(1)", "distinct_until_changed", "group_by", "merge", "observe_on(default)",
    "zip[b]", "combine_latest[b]", "merge[b]", "amb[b]", "concat[b]", "take_until[b]", "skip_until[b]", "sample[b] (callback runs inside b.next)", "sequence_equal[b]",
    "switch_on_next[b]", "flat_map(just)", "flat_map(b)", "take_last(2)", "skip_last(1)", "reduce", "retry(2)", "tap", "start_with", "default_if_empty", "filter",
  ];
  let mut runs = 0u64;
  let mut samples = vec![];
  for kind in [SubjKind::Plain, SubjKind::Behavior, SubjKind::Replay, SubjKind::Async] {
    for via in vias {
      for (what, during_replay) in [
        (Reenter::UnsubscribeSelf, false),
        (Reenter::NextOnSameSubject, false),
        (Reenter::SubscribeAnother, false),
        (Reenter::CompleteSameSubject, false),
        (Reenter::NextOnSameSubject, true),
        (Reenter::SubscribeAnother, true),
        (Reenter::CompleteSameSubject, true),
      ] {
        if during_replay && !matches!(kind, SubjKind::Behavior | SubjKind::Replay) {
          continue;
        }
        runs += 1;
        match reentry_case(kind, via, what, during_replay) {
          Ok(seen) => {
            if samples.len() < 3 {
              samples.push(format!("{:?}Subject via {} with {:?} in the callback of item 1 -> {}", kind, via, what, seen));
            }
          }
          Err(e) => {
            let class = if e.starts_with("self-deadlock") { "self-deadlock" } else { "panic" };
            r.add_finding(Finding {
              // during the hand-over the blocking site is the subject itself, whatever observes it
              key: if during_replay {
                format!("reentrancy/{:?}Subject/{:?} from a callback that is being handed the history/{}", kind, what, class)
              } else {
                format!("reentrancy/{:?}Subject via {}/{:?}/{}", kind, via, what, class)
              },
              detail: format!("a subscriber callback on a {:?}Subject (observed via {}) that does {:?} while it is being called: {}", kind, via, what, e),
              replay: obj(vec![("engine", s("S")), ("case", s(format!("{:?} {} {:?}", kind, via, what))), ("detail", s(e.clone()))]),
              count: 1,
            });
          }
        }
      }
    }
  }
  for which in ["ref_count", "replay"] {
    for d in ["take(1)", "first", "take_while(<1)", "element_at(2)", "contains(1)", "none"] {
      runs += 1;
      if let Err(e) = sync_connectable_case(which, d) {
        let class = if e.starts_with("self-deadlock") { "self-deadlock" } else { "panic" };
        r.add_finding(Finding {
          key: format!("reentrancy/from_iter.{}.{}/{}", which, d, class),
          detail: format!("from_iter(0..5).{}().observable().{} : the downstream ends during the synchronous first emission: {}", which, d, e),
          replay: obj(vec![("engine", s("S")), ("case", s(format!("{} {}", which, d))), ("detail", s(e.clone()))]),
          count: 1,
        });
      }
    }
  }
  r.traces += runs;
  r.states += runs * 4;
  r.transitions += runs * 4;
  for x in samples {
    r.samples.push(s(x));
  }
  r.extra.push(("reentrancy_cases".into(), J::I(runs as i64)));
  println!("  re-entrancy catalogue (engine S, lock monitor): {} cases", runs);
}
