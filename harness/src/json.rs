//! Minimal JSON value + writer (no external crates available offline that we want to depend on).
use std::fmt::Write;

#[derive(Clone, Debug)]
pub enum J {
  Null,
  B(bool),
  I(i64),
  F(f64),
  S(String),
  A(Vec<J>),
  O(Vec<(String, J)>),
}

pub fn s<T: Into<String>>(x: T) -> J {
  J::S(x.into())
}
pub fn arr_s<T: AsRef<str>>(xs: &[T]) -> J {
  J::A(xs.iter().map(|x| J::S(x.as_ref().to_string())).collect())
}
pub fn obj(kv: Vec<(&str, J)>) -> J {
  J::O(kv.into_iter().map(|(k, v)| (k.to_string(), v)).collect())
}

fn esc(out: &mut String, x: &str) {
  out.push('"');
  for c in x.chars() {
    match c {
      '"' => out.push_str("\\\""),
      '\\' => out.push_str("\\\\"),
      '\n' => out.push_str("\\n"),
      '\r' => out.push_str("\\r"),
      '\t' => out.push_str("\\t"),
      c if (c as u32) < 0x20 => {
        let _ = write!(out, "\\u{:04x}", c as u32);
      }
      c => out.push(c),
    }
  }
  out.push('"');
}

impl J {
  pub fn render(&self, out: &mut String, ind: usize) {
    let pad = |out: &mut String, n: usize| {
      for _ in 0..n {
        out.push(' ');
      }
    };
    match self {
      J::Null => out.push_str("null"),
      J::B(b) => out.push_str(if *b { "true" } else { "false" }),
      J::I(i) => {
        let _ = write!(out, "{}", i);
      }
      J::F(f) => {
        if f.is_finite() {
          let _ = write!(out, "{:.3}", f);
        } else {
          out.push_str("0");
        }
      }
      J::S(x) => esc(out, x),
      J::A(xs) => {
        if xs.is_empty() {
          out.push_str("[]");
          return;
        }
        out.push_str("[\n");
        for (i, x) in xs.iter().enumerate() {
          pad(out, ind + 1);
          x.render(out, ind + 1);
          if i + 1 < xs.len() {
            out.push(',');
          }
          out.push('\n');
        }
        pad(out, ind);
        out.push(']');
      }
      J::O(kv) => {
        if kv.is_empty() {
          out.push_str("{}");
          return;
        }
        out.push_str("{\n");
        for (i, (k, v)) in kv.iter().enumerate() {
          pad(out, ind + 1);
          esc(out, k);
          out.push_str(": ");
          v.render(out, ind + 1);
          if i + 1 < kv.len() {
            out.push(',');
          }
          out.push('\n');
        }
        pad(out, ind);
        out.push('}');
      }
    }
  }
  pub fn to_string(&self) -> String {
    let mut o = String::new();
    self.render(&mut o, 0);
    o.push('\n');
    o
  }
}

// ------------------------------------------------------------ tiny parser
pub fn parse(text: &str) -> Result<J, String> {
  let b: Vec<char> = text.chars().collect();
  let mut i = 0;
  let v = pval(&b, &mut i)?;
  Ok(v)
}
fn ws(b: &[char], i: &mut usize) {
  while *i < b.len() && b[*i].is_whitespace() {
    *i += 1;
  }
}
fn pval(b: &[char], i: &mut usize) -> Result<J, String> {
  ws(b, i);
  if *i >= b.len() {
    return Err("eof".into());
  }
  match b[*i] {
    '{' => {
      *i += 1;
      let mut kv = vec![];
      loop {
        ws(b, i);
        if b[*i] == '}' {
          *i += 1;
          break;
        }
        let k = match pval(b, i)? {
          J::S(k) => k,
          _ => return Err("key".into()),
        };
        ws(b, i);
        if b[*i] != ':' {
          return Err("colon".into());
        }
        *i += 1;
        let v = pval(b, i)?;
        kv.push((k, v));
        ws(b, i);
        if b[*i] == ',' {
          *i += 1;
        }
      }
      Ok(J::O(kv))
    }
    '[' => {
      *i += 1;
      let mut xs = vec![];
      loop {
        ws(b, i);
        if b[*i] == ']' {
          *i += 1;
          break;
        }
        xs.push(pval(b, i)?);
        ws(b, i);
        if b[*i] == ',' {
          *i += 1;
        }
      }
      Ok(J::A(xs))
    }
    '"' => {
      *i += 1;
      let mut o = String::new();
      while b[*i] != '"' {
        if b[*i] == '\\' {
          *i += 1;
          match b[*i] {
            'n' => o.push('\n'),
            't' => o.push('\t'),
            'r' => o.push('\r'),
            'u' => {
              let h: String = b[*i + 1..*i + 5].iter().collect();
              o.push(char::from_u32(u32::from_str_radix(&h, 16).unwrap_or(63)).unwrap_or('?'));
              *i += 4;
            }
            c => o.push(c),
          }
        } else {
          o.push(b[*i]);
        }
        *i += 1;
      }
      *i += 1;
      Ok(J::S(o))
    }
    't' => {
      *i += 4;
      Ok(J::B(true))
    }
    'f' => {
      *i += 5;
      Ok(J::B(false))
    }
    'n' => {
      *i += 4;
      Ok(J::Null)
    }
    _ => {
      let st = *i;
      while *i < b.len() && (b[*i].is_ascii_digit() || "+-.eE".contains(b[*i])) {
        *i += 1;
      }
      let t: String = b[st..*i].iter().collect();
      if let Ok(v) = t.parse::<i64>() {
        Ok(J::I(v))
      } else {
        t.parse::<f64>().map(J::F).map_err(|e| format!("num {}: {}", t, e))
      }
    }
  }
}
impl J {
  pub fn get(&self, k: &str) -> Option<&J> {
    if let J::O(kv) = self {
      kv.iter().find(|(a, _)| a == k).map(|(_, v)| v)
    } else {
      None
    }
  }
  pub fn as_str(&self) -> Option<&str> {
    if let J::S(x) = self {
      Some(x)
    } else {
      None
    }
  }
  pub fn as_arr(&self) -> Option<&Vec<J>> {
    if let J::A(x) = self {
      Some(x)
    } else {
      None
    }
  }
  pub fn as_i64(&self) -> Option<i64> {
    if let J::I(x) = self {
      Some(*x)
    } else {
      None
    }
  }
}
