mod json;
mod report;
mod tcommon;
mod s_val;
mod s_ops;
mod s_ref;
mod s_run;
mod s_props;
mod s_main;
mod s_c10;
mod s_c13;
mod s_c06a;
mod selftest;
mod t_c05;
mod t_c06;
mod t_c07;
mod t_c08;
mod t_c09;
mod t_c10;
mod t_c15;
mod t_c11;
mod t_c12;
mod t_c13;
mod t_c18;
mod t_c19;

use report::Report;

pub fn t_catalogue(prop: &str) -> Option<Vec<tcommon::Scn>> {
  match prop {
    "C08" => Some(t_c08::scenarios()),
    "C05" => Some(t_c05::scenarios()),
    "C06" => Some(t_c06::scenarios()),
    "C17" => Some(t_c06::release_scenarios()),
    "C07" => Some(t_c07::scenarios()),
    "C09" => Some(t_c09::scenarios()),
    "C10" => Some(t_c10::scenarios()),
    "C15" => Some(t_c15::c15_scenarios().into_iter().chain(t_c06::dead_worker_scenarios()).collect()),
    "C16" => Some(t_c15::c16_scenarios()),
    "C11" => Some(t_c11::scenarios()),
    "C12" => Some(t_c12::scenarios()),
    "C13" => Some(t_c13::scenarios()),
    "C18" => Some(t_c18::scenarios()),
    "C19" => Some(t_c19::scenarios()),
    _ => None,
  }
}

fn check(prop: &str, tier: &str) -> i32 {
  rxverif_rt::exec::install_quiet_panic_hook();
  match prop {
    "C05" | "C06" | "C17" => {
      // sequential clause (engine S) + cross-thread clause (engine T) in one report
      let mut r = s_main::check(prop, tier).unwrap();
      r.engine = "S+T".into();
      r.assumptions.extend(t_assumptions());
      if prop == "C06" {
        s_c06a::run(&mut r, tier == "thorough");
      }
      tcommon::run_scenarios(&mut r, t_catalogue(prop).unwrap(), tier);
      report::finish(r)
    }
    "C07" => {
      let mut r = Report::new(prop, tier, "T+S");
      r.assumptions = t_assumptions();
      r.assumptions.push("single-threaded clause: the re-entrancy catalogue and a slice of the C01/C05/C06 spaces run under the facade's lock monitor (a same-thread re-acquisition is a self-deadlock)".into());
      tcommon::run_scenarios(&mut r, t_catalogue(prop).unwrap(), tier);
      t_c07::reentrancy(&mut r);
      s_main::c07_slice(&mut r, tier);
      report::finish(r)
    }
    "C08" | "C09" | "C11" | "C12" | "C15" | "C16" | "C18" | "C19" => {
      let mut r = Report::new(prop, tier, "T");
      r.assumptions = t_assumptions();
      tcommon::run_scenarios(&mut r, t_catalogue(prop).unwrap(), tier);
      report::finish(r)
    }
    "C10" => {
      let mut r = s_c10::check(tier);
      r.engine = "S+T".into();
      r.assumptions.extend(t_assumptions());
      tcommon::run_scenarios(&mut r, t_catalogue(prop).unwrap(), tier);
      report::finish(r)
    }
    "C13" => {
      let mut r = s_c13::check(tier);
      r.engine = "S+T".into();
      r.assumptions.extend(t_assumptions());
      tcommon::run_scenarios(&mut r, t_catalogue(prop).unwrap(), tier);
      report::finish(r)
    }
    _ => match s_main::check(prop, tier) {
      Some(r) => report::finish(r),
      None => {
        eprintln!("MACHINERY-ERROR: unknown property {}", prop);
        2
      }
    },
  }
}

fn t_assumptions() -> Vec<String> {
  vec![
    "scheduling points before every lock acquire / condvar wait+notify / spawn / join / sleep / atomic op are sufficient: the crate has no other inter-thread communication (no unsafe, all shared data behind std locks)".into(),
    "sequentially consistent memory; RwLock policy = std's writer-preferring futex policy".into(),
    "bounded: every schedule with at most the stated number of preemptions/deviations of the listed closed scenarios".into(),
  ]
}

fn replay(path: &str) -> i32 {
  let t = match std::fs::read_to_string(path) {
    Ok(t) => t,
    Err(e) => {
      eprintln!("MACHINERY-ERROR: {}: {}", path, e);
      return 2;
    }
  };
  let j = json::parse(&t).expect("replay file is JSON");
  let prop = j.get("property").and_then(|x| x.as_str()).unwrap_or("").to_string();
  let rp = j.get("replay").expect("replay body");
  let engine = rp.get("engine").and_then(|x| x.as_str()).unwrap_or("");
  if engine == "T" {
    let name = rp.get("scenario").and_then(|x| x.as_str()).unwrap_or("");
    let choices: Vec<u8> = rp
      .get("choices")
      .and_then(|x| x.as_arr())
      .map(|a| a.iter().filter_map(|c| c.as_i64()).map(|c| c as u8).collect())
      .unwrap_or_default();
    let cat = t_catalogue(&prop).unwrap_or_default();
    let sc = match cat.iter().find(|s| s.name == name) {
      Some(s) => s,
      None => {
        eprintln!("MACHINERY-ERROR: scenario '{}' not in the catalogue of {}", name, prop);
        return 2;
      }
    };
    rxverif_rt::exec::install_quiet_panic_hook();
    let (end, v) = rxverif_rt::explore::replay(sc, &choices);
    println!("scenario: {}", name);
    for l in &end.trace {
      println!("  {}", l);
    }
    println!("end: {:?} {}", end.kind, end.blocked_desc.join(" ; "));
    println!("outcome: {}", v.outcome);
    for x in &v.violations {
      println!("VIOLATION-REPLAYED {}: {}", x.class, x.detail);
    }
    return if v.violations.is_empty() { 0 } else { 1 };
  }
  if engine == "S" {
    // engine S has no schedule to replay: the deterministic enumeration of the property's quick tier is
    // re-run (VERIF_REPLAY_TIER=thorough for a finding of the thorough tier) and the recorded key is looked for
    let key = j.get("key").and_then(|x| x.as_str()).unwrap_or("").to_string();
    std::env::set_var("VERIF_REPLAY_KEY", &key);
    let tier = std::env::var("VERIF_REPLAY_TIER").unwrap_or_else(|_| "quick".to_string());
    return check(&prop, &tier);
  }
  eprintln!("MACHINERY-ERROR: unknown engine '{}' in replay file", engine);
  2
}

fn main() {
  let args: Vec<String> = std::env::args().collect();
  let code = match args.get(1).map(|s| s.as_str()) {
    Some("check") => {
      let prop = args.get(2).cloned().unwrap_or_default();
      let tier = args
        .iter()
        .position(|a| a == "--tier")
        .and_then(|i| args.get(i + 1).cloned())
        .or_else(|| std::env::var("VERIF_TIER").ok())
        .unwrap_or_else(|| "quick".to_string());
      check(&prop, &tier)
    }
    Some("selftest") => {
      rxverif_rt::exec::install_quiet_panic_hook();
      selftest::run()
    }
    Some("replay") => replay(args.get(2).map(|s| s.as_str()).unwrap_or("")),
    _ => {
      eprintln!("usage: vcheck check <Cxx> --tier quick|thorough | vcheck replay <file>");
      2
    }
  };
  std::process::exit(code);
}
