//! C19 — observer contract when a pipeline's inputs race on different threads.
use crate::tcommon::*;
use another_rxrust::prelude::*;
use another_rxrust::vstd::thread;
use rxverif_rt::exec::ExecEnd;
use rxverif_rt::explore::{Body, Check, Verdict};
use std::sync::Arc;

type Build = Arc<dyn Fn(&[Hot<i64>]) -> Observable<'static, i64> + Send + Sync>;

fn script_label(s: &[Vec<Emit<i64>>]) -> String {
  s.iter()
    .map(|t| format!("P({})", t.iter().map(emit_label).collect::<Vec<_>>().join(",")))
    .collect::<Vec<_>>()
    .join("||")
}

/// n hot sources, thread i drives source i with scripts[i]; recorder direct or via map
pub fn pipeline_scn(
  opname: &str,
  family: &str,
  build: Build,
  scripts: Vec<Vec<Emit<i64>>>,
  via_map: bool,
  q: Option<u32>,
  t: Option<u32>,
) -> Scn {
  let name = format!("c19/{}{} {}", opname, if via_map { ".map" } else { "" }, script_label(&scripts));
  scn(&name, family, q, t, move || {
    let rec = Rec::new();
    let causes = Causes::new();
    let (rec2, causes2) = (rec.clone(), causes.clone());
    let build = build.clone();
    let scripts = scripts.clone();
    let body: Body = Box::new(move || {
      let hots: Vec<Hot<i64>> = (0..scripts.len()).map(|_| Hot::new()).collect();
      let o = build(&hots);
      let o = if via_map { o.map(|x| x) } else { o };
      let _sub = rec2.sub_i64(&o);
      let mut hs = vec![];
      for (i, sc) in scripts.iter().enumerate().skip(1) {
        let (h, sc, c) = (hots[i].clone(), sc.clone(), causes2.clone());
        hs.push(thread::spawn(move || {
          for e in &sc {
            c.mark(&format!("s{}:{}", i, emit_label(e)));
            h.emit(e);
          }
        }));
      }
      for e in &scripts[0] {
        causes2.mark(&format!("s0:{}", emit_label(e)));
        hots[0].emit(e);
      }
      for h in hs {
        let _ = h.join();
      }
    });
    let check: Check = Box::new(move |e: &ExecEnd| {
      let mut v = base_violations(e, &[]);
      v.extend(contract_violations(&rec, &causes));
      if let Some(o) = rec.overlap() {
        let _ = o; // overlapping callbacks are not forbidden by C19's statement
      }
      Verdict { outcome: rec.short(), violations: v }
    });
    (body, check)
  })
}

/// two producer threads push into ONE hot `create` source (the same observer)
pub fn shared_source_scn(build: Build, scripts: Vec<Vec<Emit<i64>>>, via_map: bool, q: Option<u32>, t: Option<u32>) -> Scn {
  let name = format!("c19/one observer shared by two threads{} {}", if via_map { ".map" } else { "" }, script_label(&scripts));
  scn(&name, "shared-observer", q, t, move || {
    let rec = Rec::new();
    let causes = Causes::new();
    let (rec2, causes2) = (rec.clone(), causes.clone());
    let build = build.clone();
    let scripts = scripts.clone();
    let body: Body = Box::new(move || {
      let hots: Vec<Hot<i64>> = vec![Hot::new(), Hot::new()];
      let o = build(&hots);
      let o = if via_map { o.map(|x| x) } else { o };
      let _sub = rec2.sub_i64(&o);
      let mut hs = vec![];
      for (i, sc) in scripts.iter().enumerate().skip(1) {
        let (h, sc, c) = (hots[0].clone(), sc.clone(), causes2.clone());
        hs.push(thread::spawn(move || {
          for e in &sc {
            c.mark(&format!("s{}:{}", i, emit_label(e)));
            h.emit(e);
          }
        }));
      }
      for e in &scripts[0] {
        causes2.mark(&format!("s0:{}", emit_label(e)));
        hots[0].emit(e);
      }
      for h in hs {
        let _ = h.join();
      }
    });
    let check: Check = Box::new(move |e: &ExecEnd| {
      let mut v = base_violations(e, &[]);
      v.extend(contract_violations(&rec, &causes));
      Verdict { outcome: rec.short(), violations: v }
    });
    (body, check)
  })
}

pub fn subject_scn(kind: SubjKind, ops: Vec<Vec<Emit<i64>>>, via_map: bool, q: Option<u32>, t: Option<u32>) -> Scn {
  let name = format!("c19/{:?}Subject{} {}", kind, if via_map { ".map" } else { "" }, script_label(&ops));
  let family = format!("subject-{:?}{}", kind, if via_map { "-via-map" } else { "-direct" }).to_lowercase();
  scn(&name, &family, q, t, move || {
    let rec = Rec::new();
    let causes = Causes::new();
    let (rec2, causes2) = (rec.clone(), causes.clone());
    let ops = ops.clone();
    let body: Body = Box::new(move || {
      let sbj = AnySubject::new(kind);
      let o = sbj.observable();
      let o = if via_map { o.map(|x| x) } else { o };
      let _sub = rec2.sub_i64(&o);
      let mut hs = vec![];
      for (i, sc) in ops.iter().enumerate().skip(1) {
        let (s, sc, c) = (sbj.clone(), sc.clone(), causes2.clone());
        hs.push(thread::spawn(move || {
          for e in &sc {
            c.mark(&format!("p{}:{}", i, emit_label(e)));
            s.emit(e);
          }
        }));
      }
      for e in &ops[0] {
        causes2.mark(&format!("p0:{}", emit_label(e)));
        sbj.emit(e);
      }
      for h in hs {
        let _ = h.join();
      }
    });
    let check: Check = Box::new(move |e: &ExecEnd| {
      let mut v = base_violations(e, &[]);
      v.extend(contract_violations(&rec, &causes));
      Verdict { outcome: rec.short(), violations: v }
    });
    (body, check)
  })
}

pub fn scenarios() -> Vec<Scn> {
  use Emit::*;
  let mut v = vec![];
  let ops: Vec<(&str, Build)> = vec![
    ("merge", Arc::new(|h: &[Hot<i64>]| h[0].observable().merge(&[h[1].observable()]))),
    ("flat_map", Arc::new(|h: &[Hot<i64>]| {
      let (a, b) = (h[0].clone(), h[1].clone());
      observables::from_iter(0..2).flat_map(move |i| if i == 0 { a.observable() } else { b.observable() })
    })),
    ("zip", Arc::new(|h: &[Hot<i64>]| h[0].observable().zip(&[h[1].observable()]).map(|v| v.iter().sum()))),
    ("amb", Arc::new(|h: &[Hot<i64>]| h[0].observable().amb(&[h[1].observable()]))),
    ("combine_latest", Arc::new(|h: &[Hot<i64>]| h[0].observable().combine_latest(&[h[1].observable()], |v| v.iter().sum()))),
  ];
  for (name, b) in &ops {
    let fam = format!("{}-inputs", name);
    let core = *name == "merge" || *name == "zip";
    for via_map in [false, true] {
      let q = if core || !via_map { Some(2) } else { None };
      v.push(pipeline_scn(name, &fam, b.clone(), vec![vec![N(1), E(7)], vec![N(2), N(3)]], via_map, q, Some(3)));
      v.push(pipeline_scn(name, &fam, b.clone(), vec![vec![E(7)], vec![E(8)]], via_map, q, Some(3)));
      v.push(pipeline_scn(name, &fam, b.clone(), vec![vec![C], vec![N(1), C]], via_map, if via_map { None } else { Some(2) }, Some(3)));
    }
  }
  // two racing inputs, merged, then one operator with state of its own before the subscriber
  let after: Vec<(&str, Build)> = vec![
    ("merge.scan", Arc::new(|h: &[Hot<i64>]| h[0].observable().merge(&[h[1].observable()]).scan(|(a, b)| a + b))),
    ("merge.distinct_until_changed", Arc::new(|h: &[Hot<i64>]| h[0].observable().merge(&[h[1].observable()]).distinct_until_changed())),
    ("merge.buffer_with_count(2)", Arc::new(|h: &[Hot<i64>]| h[0].observable().merge(&[h[1].observable()]).buffer_with_count(2).map(|v| v.iter().sum()))),
    ("merge.take(2)", Arc::new(|h: &[Hot<i64>]| h[0].observable().merge(&[h[1].observable()]).take(2))),
    ("merge.take_last(1)", Arc::new(|h: &[Hot<i64>]| h[0].observable().merge(&[h[1].observable()]).take_last(1))),
    ("merge.skip(1)", Arc::new(|h: &[Hot<i64>]| h[0].observable().merge(&[h[1].observable()]).skip(1))),
    ("merge.take_while(<3)", Arc::new(|h: &[Hot<i64>]| h[0].observable().merge(&[h[1].observable()]).take_while(|x| x < 3))),
    ("merge.default_if_empty", Arc::new(|h: &[Hot<i64>]| h[0].observable().merge(&[h[1].observable()]).default_if_empty(9))),
    ("merge.start_with", Arc::new(|h: &[Hot<i64>]| h[0].observable().merge(&[h[1].observable()]).start_with([9i64].into_iter()))),
    ("merge.window_with_count(2).flat_map", Arc::new(|h: &[Hot<i64>]| h[0].observable().merge(&[h[1].observable()]).window_with_count(2).flat_map(|w| w))),
    ("merge.group_by.flat_map", Arc::new(|h: &[Hot<i64>]| h[0].observable().merge(&[h[1].observable()]).group_by(|x| x % 2).flat_map(|g| g))),
    ("merge.materialize.dematerialize", Arc::new(|h: &[Hot<i64>]| h[0].observable().merge(&[h[1].observable()]).materialize().dematerialize())),
    ("merge.on_error_resume_next(just)", Arc::new(|h: &[Hot<i64>]| h[0].observable().merge(&[h[1].observable()]).on_error_resume_next(|_| observables::just(99)))),
    ("merge.count", Arc::new(|h: &[Hot<i64>]| h[0].observable().merge(&[h[1].observable()]).count().map(|n| n as i64))),
    ("merge.ref_count", Arc::new(|h: &[Hot<i64>]| h[0].observable().merge(&[h[1].observable()]).ref_count().observable())),
  ];
  for (name, b) in &after {
    let fam = "merge-then-stateful-operator".to_string();
    v.push(pipeline_scn(name, &fam, b.clone(), vec![vec![N(1), E(7)], vec![N(2), N(3)]], false, Some(2), Some(3)));
    v.push(pipeline_scn(name, &fam, b.clone(), vec![vec![N(1), C], vec![N(2), E(8)]], false, Some(1), Some(3)));
    v.push(pipeline_scn(name, &fam, b.clone(), vec![vec![E(7)], vec![E(8)]], false, None, Some(3)));
  }
  let trig: Vec<(&str, Build)> = vec![
    ("take_until", Arc::new(|h: &[Hot<i64>]| h[0].observable().take_until(h[1].observable()))),
    ("skip_until", Arc::new(|h: &[Hot<i64>]| h[0].observable().skip_until(h[1].observable()))),
    ("sample", Arc::new(|h: &[Hot<i64>]| h[0].observable().sample(h[1].observable()))),
  ];
  for (name, b) in &trig {
    let fam = format!("{}-source-vs-trigger", name);
    for via_map in [false, true] {
      let q = if via_map { None } else { Some(2) };
      v.push(pipeline_scn(name, &fam, b.clone(), vec![vec![N(1), E(7)], vec![N(0)]], via_map, q, Some(3)));
      v.push(pipeline_scn(name, &fam, b.clone(), vec![vec![N(1), N(2), C], vec![N(0)]], via_map, q, Some(3)));
      v.push(pipeline_scn(name, &fam, b.clone(), vec![vec![N(1), E(7)], vec![N(0), E(8)]], via_map, None, Some(3)));
    }
  }
  // one hot source whose observer is used by two producer threads (a subscriber directly on it, and through map)
  let shared: Build = Arc::new(|h: &[Hot<i64>]| {
    // both "sources" are the same hot source: whatever thread pushes, it reaches the same observer
    let _ = &h[1];
    h[0].observable()
  });
  for via_map in [false, true] {
    for scripts in [vec![vec![N(1), C], vec![N(2), C]], vec![vec![C], vec![C]], vec![vec![E(7)], vec![E(8)]], vec![vec![N(1), E(7)], vec![C]]] {
      // thread i drives hots[i]; route the second thread to the first source by giving it the same Hot
      v.push(shared_source_scn(shared.clone(), scripts, via_map, Some(2), Some(3)));
    }
  }
  for kind in [SubjKind::Plain, SubjKind::Behavior, SubjKind::Replay, SubjKind::Async] {
    for via_map in [false, true] {
      // (two short threads: bound 3 is cheap enough for the quick tier, and a hand-over of a terminal between an
      // item in flight and the thread that signals it needs that many - seed C19-h)
      let q = if kind == SubjKind::Plain || !via_map { Some(3) } else { None };
      v.push(subject_scn(kind, vec![vec![N(1)], vec![C]], via_map, q, Some(4)));
      v.push(subject_scn(kind, vec![vec![N(1)], vec![E(7)]], via_map, q, Some(4)));
      v.push(subject_scn(kind, vec![vec![C], vec![E(7)]], via_map, q, Some(4)));
      // the same terminal signalled from two threads at once
      v.push(subject_scn(kind, vec![vec![C], vec![C]], via_map, q, Some(4)));
      v.push(subject_scn(kind, vec![vec![E(7)], vec![E(8)]], via_map, if via_map { None } else { q }, Some(4)));
      v.push(subject_scn(kind, vec![vec![N(1), N(2)], vec![C], vec![E(7)]], via_map, None, Some(2)));
      // one thread emits and then signals the terminal while another one emits
      v.push(subject_scn(kind, vec![vec![N(1), C], vec![N(2)]], via_map, if via_map { None } else { Some(2) }, Some(3)));
      v.push(subject_scn(kind, vec![vec![N(1), E(7)], vec![N(2)]], via_map, if via_map { None } else { Some(2) }, Some(3)));
    }
  }
  v
}
