//! C08 — scheduler queue: FIFO, one at a time, at most once, clean stop.
use crate::tcommon::*;
use another_rxrust::prelude::*;
use another_rxrust::vstd::thread;
use rxverif_rt::exec::{ExecEnd, ThreadEnd};
use rxverif_rt::explore::{Body, Check, Verdict};
use scheduler::IScheduler;
use schedulers::NewThreadScheduler;
use std::sync::{Arc, Mutex};

#[derive(Clone, Debug)]
pub enum Op {
  Post(u32),
  /// post a task that itself posts task `.1`
  PostPosting(u32, u32),
  /// post a task that calls abort
  PostAborting(u32),
  /// post a task that sleeps 1 ms (virtual time)
  PostSleeping(u32),
  /// (inside a task only) sleep 1 ms of virtual time
  SleepNow,
  /// the posting thread pauses (virtual milliseconds)
  Pause(u64),
  /// post a task that sleeps 1 ms and then posts task `.1` to its own scheduler
  PostSleepingPosting(u32, u32),
  /// (inside a task only) sleep 1 ms, then post
  SleepThenPost(u32),
  /// post a task that captures a guard; when the worker drops the finished task, the guard's destructor
  /// posts task `.1` to the same scheduler / aborts it
  PostDropPosting(u32, u32),
  PostDropAborting(u32),
  /// (as the destructor of a task's capture only)
  OnDropPost(u32),
  OnDropAbort,
  Abort,
}

#[derive(Default)]
struct Log {
  // controlled threads started by the harness itself (main + posters)
  harness_tids: Vec<usize>,
  // (task, start, end, tid)
  runs: Vec<(u32, u64, u64, usize)>,
  // (task, call, ret, poster tid)
  posts: Vec<(u32, u64, u64, usize)>,
  // (call, ret)
  aborts: Vec<(u64, u64)>,
}

type L = Arc<Mutex<Log>>;

/// a capture whose destructor calls back into the scheduler
struct DropAct {
  log: L,
  op: Op,
  sch: NewThreadScheduler<'static>,
}
impl Drop for DropAct {
  fn drop(&mut self) {
    do_op(&self.log, &self.op, &self.sch);
  }
}

fn task(log: &L, id: u32, inner: Option<Op>, sch: NewThreadScheduler<'static>) -> impl Fn() + Clone + Send + Sync + 'static {
  let log = log.clone();
  let on_drop: Option<Arc<DropAct>> = match &inner {
    Some(Op::OnDropPost(b)) => Some(Arc::new(DropAct { log: log.clone(), op: Op::Post(*b), sch: sch.clone() })),
    Some(Op::OnDropAbort) => Some(Arc::new(DropAct { log: log.clone(), op: Op::Abort, sch: sch.clone() })),
    _ => None,
  };
  // a plain task holds no handle of the scheduler it is queued on: when the posters are done and
  // drop theirs, the tasks still queued have to run all the same
  let sch = if matches!(inner, Some(Op::Post(_)) | Some(Op::Abort) | Some(Op::SleepThenPost(_))) { Some(sch) } else { None };
  move || {
    let _ = &on_drop;
    let i = {
      let mut l = log.lock().unwrap();
      l.runs.push((id, rxverif_rt::stamp(), 0, rxverif_rt::tid()));
      l.runs.len() - 1
    };
    rxverif_rt::point();
    if let (Some(Op::SleepThenPost(b)), Some(sch)) = (&inner, &sch) {
      thread::sleep(ms(1));
      do_op(&log, &Op::Post(*b), sch);
    } else if let (Some(op), Some(sch)) = (&inner, &sch) {
      do_op(&log, op, sch);
    }
    if let Some(Op::SleepNow) = &inner {
      thread::sleep(ms(1));
    }
    let st = rxverif_rt::stamp();
    log.lock().unwrap().runs[i].2 = st;
  }
}

fn do_op(log: &L, op: &Op, sch: &NewThreadScheduler<'static>) {
  match op {
    Op::Abort => {
      let c = rxverif_rt::stamp();
      sch.abort();
      let r = rxverif_rt::stamp();
      log.lock().unwrap().aborts.push((c, r));
    }
    Op::SleepNow | Op::SleepThenPost(_) | Op::OnDropPost(_) | Op::OnDropAbort => {}
    Op::Pause(d) => thread::sleep(ms(*d)),
    Op::Post(id) | Op::PostPosting(id, _) | Op::PostAborting(id) | Op::PostSleeping(id) | Op::PostSleepingPosting(id, _) | Op::PostDropPosting(id, _) | Op::PostDropAborting(id) => {
      let inner = match op {
        Op::PostDropPosting(_, b) => Some(Op::OnDropPost(*b)),
        Op::PostDropAborting(_) => Some(Op::OnDropAbort),
        Op::PostSleepingPosting(_, b) => Some(Op::SleepThenPost(*b)),
        Op::PostSleeping(_) => Some(Op::SleepNow),
        Op::PostPosting(_, b) => Some(Op::Post(*b)),
        Op::PostAborting(_) => Some(Op::Abort),
        _ => None,
      };
      let t = task(log, *id, inner, sch.clone());
      let c = rxverif_rt::stamp();
      sch.post(t);
      let r = rxverif_rt::stamp();
      log.lock().unwrap().posts.push((*id, c, r, rxverif_rt::tid()));
    }
  }
}

fn has_abort(h: &[Vec<Op>]) -> bool {
  h.iter().flatten().any(|o| matches!(o, Op::Abort | Op::PostAborting(_) | Op::PostDropAborting(_)))
}

fn all_tasks(h: &[Vec<Op>]) -> Vec<u32> {
  let mut v = vec![];
  for o in h.iter().flatten() {
    match o {
      Op::Post(a) | Op::PostAborting(a) | Op::PostSleeping(a) | Op::PostDropAborting(a) => v.push(*a),
      Op::PostPosting(a, b) | Op::PostSleepingPosting(a, b) | Op::PostDropPosting(a, b) => {
        v.push(*a);
        v.push(*b)
      }
      Op::Abort | Op::SleepNow | Op::Pause(_) | Op::SleepThenPost(_) | Op::OnDropPost(_) | Op::OnDropAbort => {}
    }
  }
  v
}

pub fn history_scn(name: &str, hist: Vec<Vec<Op>>, q: Option<u32>, t: Option<u32>) -> Scn {
  let hist2 = hist.clone();
  scn(name, "scheduler-queue", q, t, move || {
    let log: L = Arc::new(Mutex::new(Log::default()));
    let hist = hist2.clone();
    let l_body = log.clone();
    let body: Body = Box::new(move || {
      l_body.lock().unwrap().harness_tids.push(rxverif_rt::tid());
      let sch = schedulers::new_thread_scheduler()();
      let mut hs = vec![];
      for ops in hist.iter().skip(1).cloned() {
        let (l, s) = (l_body.clone(), sch.clone());
        hs.push(thread::spawn(move || {
          l.lock().unwrap().harness_tids.push(rxverif_rt::tid());
          for o in &ops {
            do_op(&l, o, &s);
          }
        }));
      }
      for o in &hist[0] {
        do_op(&l_body, o, &sch);
      }
      for h in hs {
        let _ = h.join();
      }
    });
    let hist = hist2.clone();
    let check: Check = Box::new(move |e: &ExecEnd| {
      let l = log.lock().unwrap();
      let aborting = has_abort(&hist);
      // the scheduler's own threads = every controlled thread the harness did not start
      let sched_threads: Vec<usize> = (0..e.threads.len()).filter(|t| !l.harness_tids.contains(t)).collect();
      let worker_parked_ok = if aborting { vec![] } else { sched_threads.clone() };
      let mut v = base_violations(e, &worker_parked_ok);
      // an abort issued from inside a task only happens if that task ran
      let abort_done = !l.aborts.is_empty();
      let mut runs = l.runs.clone();
      runs.sort_by_key(|r| r.1);
      // one at a time
      for w in runs.windows(2) {
        let end0 = if w[0].2 == 0 { u64::MAX } else { w[0].2 };
        if w[1].1 < end0 {
          v.push(viol("tasks-overlap", format!("task {} started at {} while task {} ran [{}..{}]", w[1].0, w[1].1, w[0].0, w[0].1, w[0].2)));
        }
      }
      // at most once
      for t in all_tasks(&hist) {
        let n = runs.iter().filter(|r| r.0 == t).count();
        if n > 1 {
          v.push(viol("task-ran-twice", format!("task {} ran {} times", t, n)));
        }
      }
      // FIFO among posts ordered in real time
      let first_run: std::collections::HashMap<u32, u64> = runs.iter().rev().map(|r| (r.0, r.1)).collect();
      for a in &l.posts {
        for b in &l.posts {
          if a.2 < b.1 {
            if let (Some(ra), Some(rb)) = (first_run.get(&a.0), first_run.get(&b.0)) {
              if ra > rb {
                v.push(viol("fifo-violated", format!("post({}) returned before post({}) was called, but {} ran first", a.0, b.0, b.0)));
              }
            }
          }
        }
      }
      // one worker thread, distinct from every poster
      let mut task_tids: Vec<usize> = runs.iter().map(|r| r.3).collect();
      task_tids.sort();
      task_tids.dedup();
      if task_tids.len() > 1 {
        v.push(viol("tasks-on-several-threads", format!("tasks ran on threads {:?}", task_tids)));
      }
      for r in &runs {
        if l.harness_tids.contains(&r.3) {
          v.push(viol("task-on-a-poster-thread", format!("task {} ran on t{}, which is a thread that posts", r.0, r.3)));
        }
      }
      // After abort returned no further task is *taken from the queue*. A
      // task that was dequeued before abort took the queue mutex may still
      // start afterwards ("a task already in progress"); it is recognisable:
      // it was posted before abort returned and the worker's previous task
      // had ended before abort returned. Anything else was dequeued later.
      if let Some(a_ret) = l.aborts.iter().map(|a| a.1).min() {
        for (i, r) in runs.iter().enumerate() {
          if r.1 > a_ret {
            let post_call = l.posts.iter().find(|p| p.0 == r.0).map(|p| p.1);
            let posted_after = post_call.map_or(false, |c| c > a_ret);
            let prev_ended_after = i > 0 && (runs[i - 1].2 == 0 || runs[i - 1].2 > a_ret);
            if posted_after || prev_ended_after {
              v.push(viol(
                "task-taken-after-abort",
                format!("task {} started at {} although abort had returned at {} ({})", r.0, r.1, a_ret,
                  if posted_after { "it was posted after abort returned" } else { "the worker's previous task ended after abort returned" }),
              ));
            }
          }
        }
      }
      let quiescent_ok = e.threads.len() > 1;
      if quiescent_ok {
        if abort_done {
          for t in &sched_threads {
            if e.threads[*t].end != ThreadEnd::Finished {
              v.push(viol("worker-not-exited-after-abort", format!("scheduler thread t{} has not exited: {}", t, thread_summary(e))));
            }
          }
        } else if !aborting {
          // no abort anywhere: every posted task must have run (else lost wake-up)
          for p in &l.posts {
            if !runs.iter().any(|r| r.0 == p.0 && r.2 != 0) {
              v.push(viol("lost-wakeup-task-never-ran", format!("task {} posted (no abort in history) but never ran; threads {}", p.0, thread_summary(e))));
            }
          }
        }
      }
      let outcome = format!(
        "ran[{}] {} aborts={}",
        runs.iter().map(|r| r.0.to_string()).collect::<Vec<_>>().join(","),
        thread_summary(e),
        l.aborts.len()
      );
      Verdict { outcome, violations: v }
    });
    (body, check)
  })
}

pub fn scenarios() -> Vec<Scn> {
  use Op::*;
  let mut v = vec![
    history_scn("c08/M{post a,post b,abort}", vec![vec![Post(1), Post(2), Abort]], Some(3), Some(4)),
    history_scn("c08/M{post a}||T{abort}", vec![vec![Post(1)], vec![Abort]], Some(3), Some(4)),
    history_scn("c08/M{post a,post b} no abort", vec![vec![Post(1), Post(2)]], Some(3), Some(5)),
    history_scn("c08/T1{post a,post b}||T2{post c}", vec![vec![], vec![Post(1), Post(2)], vec![Post(3)]], Some(2), Some(3)),
    history_scn("c08/T1{post a}||T2{post b}||T3{abort}", vec![vec![], vec![Post(1)], vec![Post(2)], vec![Abort]], Some(1), Some(2)),
    history_scn("c08/task a posts b", vec![vec![PostPosting(1, 2)]], Some(3), Some(5)),
    history_scn("c08/task a aborts, b queued", vec![vec![PostAborting(1), Post(2)]], Some(3), Some(5)),
    history_scn("c08/M{post a,abort,post b}", vec![vec![Post(1), Abort, Post(2)]], Some(3), Some(4)),
    history_scn("c08/M{post a,post b,post c}||T{abort}", vec![vec![Post(1), Post(2), Post(3)], vec![Abort]], None, Some(3)),
    history_scn("c08/M{post a posts b, post c}", vec![vec![PostPosting(1, 2), Post(3)]], None, Some(4)),
    history_scn("c08/M{post a posts b}||T{abort}", vec![vec![PostPosting(1, 2)], vec![Abort]], Some(2), Some(3)),
    history_scn("c08/M{post a aborts}||T{post b}", vec![vec![PostAborting(1)], vec![Post(2)]], Some(2), Some(3)),
    history_scn("c08/M{abort}||T{abort}", vec![vec![Abort], vec![Abort]], Some(3), Some(5)),
    history_scn("c08/T1{post a,abort}||T2{post b,abort}", vec![vec![], vec![Post(1), Abort], vec![Post(2), Abort]], None, Some(3)),
    // a burst far longer than any small constant the queue might batch or cap by
    history_scn("c08/M{post x24} burst, no abort", vec![(1..=24).map(Post).collect()], Some(1), Some(2)),
    history_scn("c08/M{post x20, abort} burst", vec![(1..=20).map(Post).chain(std::iter::once(Abort)).collect()], Some(1), Some(2)),
    // ... and one beyond the usual powers of two a back-log threshold might be set to (seed C09-h: a helper
    // worker once more than 1024 tasks are pending); default schedule + every single preemption in the thorough tier
    // a finished task is released on the worker: a capture whose destructor posts to / aborts the scheduler
    // it ran on (the worker must not hold the queue's lock while it lets go of a task: seed C08-j)
    history_scn("c08/M{post a whose capture posts b when it is dropped, post c}", vec![vec![PostDropPosting(1, 2), Post(3)]], Some(2), Some(4)),
    history_scn("c08/M{post a whose capture aborts when it is dropped, post b}", vec![vec![PostDropAborting(1), Post(2)]], Some(2), Some(4)),
    // a long quiet period between two posts (an idle worker stays available: seed C09-i retires it after 1 s)
    history_scn("c08/M{post a, pause 60 s, post b} no abort", vec![vec![Post(1), Pause(60_000), Post(2)]], Some(2), Some(3)),
    history_scn("c08/M{post a, pause 60 s, post b, abort}", vec![vec![Post(1), Pause(60_000), Post(2), Pause(5), Abort]], Some(1), Some(2)),
    {
      // ... the first task asleep while the back-log builds up behind it
      let mut s = history_scn("c08/M{post a sleeps, post x1100} long burst behind a sleeping task", vec![std::iter::once(PostSleeping(1)).chain((2..=1101).map(Post)).collect()], Some(0), Some(1));
      s.min_conflicts = 1;
      s.cfg.max_steps = 200_000;
      s
    },
    {
      // ... and that first task posts to its own scheduler when it wakes up (a bounded queue would have it
      // wait for room that only it can make: seed C08-i)
      let mut s = history_scn("c08/M{post a sleeps then posts z, post x1100} a task posts into a long back-log", vec![std::iter::once(PostSleepingPosting(1, 5000)).chain((2..=1101).map(Post)).collect()], Some(0), Some(1));
      s.min_conflicts = 1;
      s.cfg.max_steps = 200_000;
      s
    },
    {
      let mut s = history_scn("c08/M{post x1100} long burst, no abort", vec![(1..=1100).map(Post).collect()], Some(0), Some(1));
      s.min_conflicts = 1; // quick tier: the default schedule only
      s.cfg.max_steps = 200_000;
      s
    },
  ];
  // two scheduler instances: a task running on A's worker posts to B / aborts B (B's worker is idle)
  for abort_b in [false, true] {
    let name = format!("c08/two schedulers: a task on A's worker {} B", if abort_b { "aborts" } else { "posts to" });
    let mut s = scn(&name, "scheduler-queue", Some(2), Some(3), move || {
      let ran: Arc<Mutex<Vec<(u32, usize)>>> = Arc::new(Mutex::new(vec![]));
      let r2 = ran.clone();
      let body: Body = Box::new(move || {
        let a = schedulers::new_thread_scheduler()();
        let b = schedulers::new_thread_scheduler()();
        let (b2, r3) = (b.clone(), r2.clone());
        a.post(move || {
          r3.lock().unwrap().push((1, rxverif_rt::tid()));
          if abort_b {
            b2.abort();
          } else {
            let r4 = r3.clone();
            b2.post(move || r4.lock().unwrap().push((2, rxverif_rt::tid())));
          }
        });
        // let both workers come to rest, then end what has to be ended by hand
        thread::sleep(ms(5));
        a.abort();
        if !abort_b {
          b.abort();
        }
      });
      let check: Check = Box::new(move |e: &ExecEnd| {
        let mut v = base_violations(e, &[]);
        let r = ran.lock().unwrap().clone();
        if !r.iter().any(|x| x.0 == 1) {
          v.push(viol("lost-wakeup-task-never-ran", format!("task 1 (posted to A, no abort pending) never ran: {:?}", r)));
        }
        if !abort_b && !r.iter().any(|x| x.0 == 2) {
          v.push(viol("lost-wakeup-task-never-ran", format!("task 2 (posted to B from A's worker, no abort pending) never ran: {:?}; threads {}", r, thread_summary(e))));
        }
        let live = unfinished_threads(e);
        if !live.is_empty() {
          v.push(viol("worker-not-exited-after-abort", format!("threads {:?} have not exited although both schedulers were aborted; {}", live, thread_summary(e))));
        }
        Verdict { outcome: format!("{:?} | {}", r, thread_summary(e)), violations: v }
      });
      (body, check)
    });
    s.min_conflicts = 1;
    v.push(s);
  }
  // abort() returns while a task is in progress: a task that only finishes through something the
  // aborting thread does *after* abort() has returned
  v.push({
    let mut s = scn("c08/abort while the task in progress waits for what the aborter does next", "scheduler-queue", Some(2), Some(3), || {
      let ran: Arc<Mutex<Vec<u32>>> = Arc::new(Mutex::new(vec![]));
      let r2 = ran.clone();
      let body: Body = Box::new(move || {
        let a = schedulers::new_thread_scheduler()();
        let gate = Arc::new((rxverif_rt::sync::Mutex::new(0u8), rxverif_rt::sync::Condvar::new()));
        let (g2, r3) = (gate.clone(), r2.clone());
        a.post(move || {
          let (m, c) = &*g2;
          let mut st = m.lock().unwrap();
          *st = 1; // in progress
          c.notify_all();
          while *st < 2 {
            st = c.wait(st).unwrap();
          }
          r3.lock().unwrap().push(1);
        });
        let (m, c) = &*gate;
        {
          let mut st = m.lock().unwrap();
          while *st < 1 {
            st = c.wait(st).unwrap();
          }
        }
        a.abort();
        *m.lock().unwrap() = 2;
        c.notify_all();
      });
      let check: Check = Box::new(move |e: &ExecEnd| {
        let mut v = base_violations(e, &[]);
        let r = ran.lock().unwrap().clone();
        if r != vec![1] {
          v.push(viol("task-in-progress-not-finished", format!("the task in progress when abort was called did not run to its end: {:?}; {}", r, thread_summary(e))));
        }
        let live = unfinished_threads(e);
        if !live.is_empty() {
          v.push(viol("worker-not-exited-after-abort", format!("threads {:?} have not exited although the task in progress has been released; {}", live, thread_summary(e))));
        }
        Verdict { outcome: format!("{:?} | {}", r, thread_summary(e)), violations: v }
      });
      (body, check)
    });
    s.min_conflicts = 1;
    s
  });
  // two schedulers whose tasks in progress abort each other
  v.push({
    let mut s = scn("c08/two schedulers: the tasks in progress abort each other", "scheduler-queue", Some(2), Some(3), || {
      let ran: Arc<Mutex<Vec<u32>>> = Arc::new(Mutex::new(vec![]));
      let r2 = ran.clone();
      let body: Body = Box::new(move || {
        let a = schedulers::new_thread_scheduler()();
        let b = schedulers::new_thread_scheduler()();
        let (b2, r3) = (b.clone(), r2.clone());
        a.post(move || {
          b2.abort();
          r3.lock().unwrap().push(1);
        });
        let (a2, r4) = (a.clone(), r2.clone());
        b.post(move || {
          a2.abort();
          r4.lock().unwrap().push(2);
        });
        thread::sleep(ms(5));
        a.abort();
        b.abort();
      });
      let check: Check = Box::new(move |e: &ExecEnd| {
        let mut v = base_violations(e, &[]);
        let mut r = ran.lock().unwrap().clone();
        r.sort();
        // (either task may have been discarded by the other's abort before it started; one that started ends)
        let live = unfinished_threads(e);
        if !live.is_empty() {
          v.push(viol("worker-not-exited-after-abort", format!("threads {:?} have not exited although both schedulers were aborted; {}", live, thread_summary(e))));
        }
        Verdict { outcome: format!("{:?} | {}", r, thread_summary(e)), violations: v }
      });
      (body, check)
    });
    s.min_conflicts = 1;
    s
  });
  // the default scheduler runs the task synchronously inside post
  v.push({
    let mut s = scn("c08/default scheduler is synchronous", "default-scheduler", Some(1), Some(1), || {
      let log = Arc::new(Mutex::new(vec![]));
      let l2 = log.clone();
      let body: Body = Box::new(move || {
        let sch = schedulers::default_scheduler()();
        for i in 0..3 {
          let l = l2.clone();
          sch.post(move || l.lock().unwrap().push((i, rxverif_rt::tid(), true)));
          l2.lock().unwrap().push((i, rxverif_rt::tid(), false));
        }
        sch.abort();
        // "runs the task synchronously in post" has no exception: after abort (a no-op for a scheduler
        // without a queue), through a clone, and from inside a task that has just aborted
        let l = l2.clone();
        sch.post(move || l.lock().unwrap().push((3, rxverif_rt::tid(), true)));
        l2.lock().unwrap().push((3, rxverif_rt::tid(), false));
        let c = sch.clone();
        let l = l2.clone();
        c.post(move || l.lock().unwrap().push((4, rxverif_rt::tid(), true)));
        l2.lock().unwrap().push((4, rxverif_rt::tid(), false));
        let fresh = schedulers::default_scheduler()();
        let (f2, l) = (fresh.clone(), l2.clone());
        fresh.post(move || {
          f2.abort();
          let l3 = l.clone();
          f2.post(move || l3.lock().unwrap().push((5, rxverif_rt::tid(), true)));
        });
        l2.lock().unwrap().push((5, rxverif_rt::tid(), false));
      });
      let check: Check = Box::new(move |e: &ExecEnd| {
        let l = log.lock().unwrap().clone();
        let want: Vec<(i32, usize, bool)> = (0..6).flat_map(|i| vec![(i, 0usize, true), (i, 0usize, false)]).collect();
        let mut v = base_violations(e, &[]);
        if l != want {
          v.push(viol("default-scheduler-not-synchronous", format!("{:?}", l)));
        }
        Verdict { outcome: format!("{:?}", l), violations: v }
      });
      (body, check)
    });
    s.min_conflicts = 0;
    s
  });
  v
}
