//! C12 — subjects used from several threads neither lose, duplicate nor reorder.
use crate::tcommon::*;
use another_rxrust::prelude::*;
use another_rxrust::vstd::thread;
use rxverif_rt::exec::ExecEnd;
use rxverif_rt::explore::{Body, Check, Verdict};

#[derive(Clone, Copy, Debug, PartialEq)]
enum Role {
  /// subscribed before the producers start, stays
  Resident,
  /// subscribes on its own thread, concurrently with the producers
  Late,
  /// subscribed before, unsubscribed by its own thread concurrently
  Leaving,
}

fn is_subseq_in_order(got: &[i64], script: &[i64]) -> bool {
  // got restricted to script's values keeps script's order, no duplicates
  let mine: Vec<i64> = got.iter().cloned().filter(|x| script.contains(x)).collect();
  let mut pos = 0;
  for x in &mine {
    match script[pos..].iter().position(|y| y == x) {
      Some(p) => pos += p + 1,
      None => return false,
    }
  }
  true
}
fn restricted(got: &[i64], script: &[i64]) -> Vec<i64> {
  got.iter().cloned().filter(|x| script.contains(x)).collect()
}

fn subj_scn(kind: SubjKind, producers: Vec<Vec<i64>>, roles: Vec<Role>, q: Option<u32>, t: Option<u32>) -> Scn {
  subj_scn_x(kind, producers, roles, false, q, t)
}

/// `shared`: every observer subscribes through one and the same Observable value
fn subj_scn_x(kind: SubjKind, producers: Vec<Vec<i64>>, roles: Vec<Role>, shared: bool, q: Option<u32>, t: Option<u32>) -> Scn {
  let name = format!(
    "c12/{:?} {} obs[{}]{}",
    kind,
    producers.iter().map(|p| format!("P{:?}", p)).collect::<Vec<_>>().join("||"),
    roles.iter().map(|r| format!("{:?}", r)).collect::<Vec<_>>().join(","),
    if shared { " one Observable value" } else { "" }
  );
  let family = format!("{:?}-subject", kind).to_lowercase();
  scn(&name, &family, q, t, move || {
    let recs: Vec<Rec> = roles.iter().map(|_| Rec::new()).collect();
    let recs2 = recs.clone();
    // stamps: when a late subscribe returned / a leaving unsubscribe was called (per observer),
    // and when each push started / returned (per value)
    let stamps = Stamps::new();
    let stamps2 = stamps.clone();
    let (producers2, roles2) = (producers.clone(), roles.clone());
    let body: Body = Box::new(move || {
      let sbj = AnySubject::new(kind);
      let one = sbj.observable();
      let observable = {
        let (sbj, one) = (sbj.clone(), one.clone());
        move || if shared { one.clone() } else { sbj.observable() }
      };
      let mut hs = vec![];
      let mut subs = vec![];
      for (i, r) in roles2.iter().enumerate() {
        match r {
          Role::Resident | Role::Leaving => subs.push((i, recs2[i].sub_i64(&observable()))),
          Role::Late => {}
        }
      }
      for (i, r) in roles2.iter().enumerate() {
        match r {
          Role::Late => {
            let (s, rec, st) = (observable(), recs2[i].clone(), stamps2.clone());
            hs.push(thread::spawn(move || {
              let _sub = rec.sub_i64(&s);
              st.mark(&format!("subscribed:{}", i));
            }));
          }
          Role::Leaving => {
            let sub = subs.iter().find(|x| x.0 == i).unwrap().1.clone();
            let st = stamps2.clone();
            hs.push(thread::spawn(move || {
              st.mark(&format!("unsubscribing:{}", i));
              sub.unsubscribe()
            }));
          }
          Role::Resident => {}
        }
      }
      for p in producers2.iter().skip(1).cloned() {
        let (s, st) = (sbj.clone(), stamps2.clone());
        hs.push(thread::spawn(move || {
          for v in p {
            st.mark(&format!("push-start:{}", v));
            s.next(v);
            st.mark(&format!("push-end:{}", v));
          }
        }));
      }
      for v in &producers2[0] {
        stamps2.mark(&format!("push-start:{}", v));
        sbj.next(*v);
        stamps2.mark(&format!("push-end:{}", v));
      }
      for h in hs {
        let _ = h.join();
      }
    });
    let (producers, roles) = (producers.clone(), roles.clone());
    let check: Check = Box::new(move |e: &ExecEnd| {
      let mut v = base_violations(e, &[]);
      let mut outs = vec![];
      for (i, r) in roles.iter().enumerate() {
        let got = recs[i].items();
        outs.push(format!("{:?}:{}", r, recs[i].short()));
        // nobody ever sees a duplicate or a per-producer reordering
        for p in &producers {
          let mine = restricted(&got, p);
          let mut d = mine.clone();
          d.dedup();
          let mut sorted_unique = mine.clone();
          sorted_unique.sort();
          sorted_unique.dedup();
          if sorted_unique.len() != mine.len() {
            v.push(viol("duplicate-item", format!("{:?} observer got {:?} (producer script {:?})", r, got, p)));
          } else if !is_subseq_in_order(&got, p) {
            v.push(viol("reordered", format!("{:?} observer got {:?} (producer script {:?})", r, got, p)));
          }
        }
        if !recs[i].terminals().is_empty() {
          v.push(viol("unexpected-terminal", format!("{:?} observer got {}", r, recs[i].short())));
        }
        // the positional requirements are judged on the sequence with repeated deliveries
        // removed: a duplicate is reported as such (above), never as a loss
        let got_all = got.clone();
        let got = first_occurrences(&got);
        for p in &producers {
          let mine = restricted(&got, p);
          match r {
            Role::Resident => {
              if &mine != p {
                v.push(viol("lost-item", format!("resident observer got {:?}, producer pushed {:?}", got_all, p)));
              }
            }
            Role::Leaving => {
              if !p.starts_with(&mine) {
                v.push(viol("gap-in-prefix", format!("unsubscribing observer got {:?}, not a prefix of {:?}", got_all, p)));
              }
            }
            Role::Late => match kind {
              SubjKind::Replay => {
                let missing: Vec<i64> = p.iter().filter(|x| !mine.contains(x)).cloned().collect();
                if !missing.is_empty() {
                  v.push(viol("replay-late-subscriber-item-lost", format!("late ReplaySubject subscriber got {:?}, pushed {:?}: {:?} never reached it", got_all, p, missing)));
                } else if &mine != p {
                  v.push(viol("replay-late-subscriber-live-item-before-history", format!("late ReplaySubject subscriber got {:?}, pushed {:?}", got_all, p)));
                }
              }
              _ => {
                if !p.ends_with(&mine) {
                  v.push(viol("gap-in-suffix", format!("late subscriber got {:?}, not a gap-free suffix of {:?}", got_all, p)));
                }
              }
            },
          }
        }
        // delivery obligations that do not depend on how the race went:
        // a push that started after subscribe() had returned must reach a late observer,
        // a push that had returned before unsubscribe() was called must have reached a leaving one
        for p in &producers {
          for x in p {
            let (ps, pe) = (stamps.get(&format!("push-start:{}", x)), stamps.get(&format!("push-end:{}", x)));
            if *r == Role::Late {
              if let (Some(ps), Some(sr)) = (ps, stamps.get(&format!("subscribed:{}", i))) {
                if ps > sr && !got.contains(x) {
                  v.push(viol("lost-item-pushed-after-subscribe-returned", format!("late observer got {:?}; push of {} started at {}, its subscribe had returned at {}", got_all, x, ps, sr)));
                }
              }
            }
            if *r == Role::Leaving {
              if let (Some(pe), Some(uc)) = (pe, stamps.get(&format!("unsubscribing:{}", i))) {
                if pe < uc && !got.contains(x) {
                  v.push(viol("lost-item-pushed-before-unsubscribe", format!("leaving observer got {:?}; push of {} had returned at {}, unsubscribe was called at {}", got_all, x, pe, uc)));
                }
              }
            }
          }
        }
        if *r == Role::Late && kind == SubjKind::Behavior {
          // receives a value, then every later value: with one producer the
          // whole sequence must be a non-empty suffix of [initial] ++ script
          if producers.len() == 1 {
            let mut full = vec![0i64];
            full.extend(producers[0].iter());
            if got.is_empty() || !full.ends_with(&got) {
              v.push(viol("behavior-late-subscriber-gap", format!("late BehaviorSubject subscriber got {:?}, want a non-empty suffix of {:?}", got_all, full)));
            }
          } else if got.is_empty() {
            v.push(viol("behavior-late-subscriber-gap", "late BehaviorSubject subscriber got nothing".into()));
          }
        }
      }
      Verdict { outcome: outs.join(" | "), violations: v }
    });
    (body, check)
  })
}

fn first_occurrences(v: &[i64]) -> Vec<i64> {
  let mut out: Vec<i64> = vec![];
  for x in v {
    if !out.contains(x) {
      out.push(*x);
    }
  }
  out
}

#[derive(Clone, Copy, Debug, PartialEq)]
enum Fold {
  Scan,
  Reduce,
  Sum,
  Count,
  SumAndCount,
}

/// a resident observer attached through an operator that folds the items (two producers, then complete):
/// "receives every item exactly once" read through the fold - every pushed item is accounted for exactly
/// once in what the observer ends up with
fn folded_scn(kind: SubjKind, fold: Fold, q: Option<u32>, t: Option<u32>) -> Scn {
  let name = format!("c12/{:?} P[1, 2]||P[30, 40] then complete, obs[Resident through {:?}]", kind, fold);
  let family = format!("{:?}-subject-folded", kind).to_lowercase();
  scn(&name, &family, q, t, move || {
    let rec = Rec::new();
    let rec2 = rec.clone();
    let body: Body = Box::new(move || {
      let sbj = AnySubject::new(kind);
      let o = sbj.observable();
      let o: Observable<'static, i64> = match fold {
        Fold::Scan => o.scan(|(a, b)| a + b),
        Fold::Reduce => o.reduce(|(a, b)| a + b),
        Fold::Sum => o.sum(),
        Fold::Count => o.count().map(|n| n as i64),
        Fold::SumAndCount => o.sum_and_count().map(|(s, n)| s * 1000 + n as i64),
      };
      let _sub = rec2.sub_i64(&o);
      let s2 = sbj.clone();
      let h = thread::spawn(move || {
        s2.next(30);
        s2.next(40);
      });
      sbj.next(1);
      sbj.next(2);
      let _ = h.join();
      sbj.complete();
    });
    let check: Check = Box::new(move |e: &ExecEnd| {
      let mut v = base_violations(e, &[]);
      let got = rec.items();
      // a BehaviorSubject hands its initial value 0 to the subscriber first: one more item, sum unchanged
      let n_items: i64 = if kind == SubjKind::Behavior { 5 } else { 4 };
      let total = 73i64;
      let ok = match fold {
        // (the running results may be *delivered* in another order than they were folded in: scan does not
        // hold its lock while it calls downstream; the largest one is the fold of everything)
        Fold::Scan => got.len() as i64 == n_items && got.iter().max() == Some(&total),
        Fold::Reduce | Fold::Sum => got == vec![total],
        Fold::Count => got == vec![n_items],
        Fold::SumAndCount => got == vec![total * 1000 + n_items],
      };
      if !ok {
        v.push(viol("item-not-accounted-for-exactly-once", format!("the observer behind {:?} ended up with {:?}; pushed 1, 2, 30, 40 (sum 73, {} items)", fold, got, n_items)));
      }
      Verdict { outcome: rec.short(), violations: v }
    });
    (body, check)
  })
}

pub fn scenarios() -> Vec<Scn> {
  let mut v = vec![];
  for k in [SubjKind::Plain, SubjKind::Behavior, SubjKind::Replay] {
    v.push(subj_scn(k, vec![vec![1, 2], vec![3, 4]], vec![Role::Resident], Some(3), Some(4)));
    v.push(subj_scn(k, vec![vec![1, 2]], vec![Role::Late], Some(2), Some(4)));
    v.push(subj_scn(k, vec![vec![1, 2]], vec![Role::Leaving], Some(2), Some(4)));
    v.push(subj_scn(k, vec![vec![1, 2]], vec![Role::Resident, Role::Late, Role::Leaving], Some(1), Some(2)));
    v.push(subj_scn(k, vec![vec![1, 2]], vec![Role::Late, Role::Leaving], Some(2), Some(3)));
    let (h0, h1) = two_hash_seeds();
    for h in [h0, h1] {
      v.push(with_seed(subj_scn(k, vec![vec![1, 2]], vec![Role::Resident, Role::Leaving], Some(2), Some(3)), h));
      v.push(with_seed(subj_scn(k, vec![vec![1, 2]], vec![Role::Leaving, Role::Resident], None, Some(3)), h));
    }
    // one Observable value for every observer: an earlier subscriber leaves, a later one stays (and vice versa)
    v.push(subj_scn_x(k, vec![vec![1, 2]], vec![Role::Leaving, Role::Resident], true, Some(2), Some(3)));
    v.push(subj_scn_x(k, vec![vec![1, 2]], vec![Role::Resident, Role::Leaving], true, Some(2), Some(3)));
    v.push(subj_scn(k, vec![vec![1, 2], vec![3, 4]], vec![Role::Late], None, Some(3)));
    v.push(subj_scn(k, vec![vec![1, 2], vec![3, 4]], vec![Role::Late, Role::Leaving], Some(1), Some(2)));
    v.push(subj_scn(k, vec![vec![1, 2, 3]], vec![Role::Late], None, Some(3)));
    // the observer attached through an operator that folds what it gets
    for f in [Fold::Scan, Fold::Reduce, Fold::Sum, Fold::Count, Fold::SumAndCount] {
      let quick = k == SubjKind::Plain || f == Fold::Scan;
      v.push(folded_scn(k, f, if quick { Some(2) } else { None }, Some(3)));
    }
  }
  v
}
