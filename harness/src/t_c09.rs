//! C09 — observe_on / subscribe_on hand events to the scheduler: none lost,
//! none reordered, one worker thread, never two callbacks at once.
use crate::tcommon::*;
use another_rxrust::prelude::*;
use rxverif_rt::exec::ExecEnd;
use rxverif_rt::explore::{Body, Check, Verdict};
use std::sync::{Arc, Mutex};

#[derive(Clone, Copy, Debug, PartialEq)]
pub enum Pipe {
  ObserveOn,
  MapObserveOn,
  ObserveOnMap,
  ObserveOnTake1,
  ObserveOnTwice,
  SubscribeOn,
  SubscribeOnMap,
  SubscribeOnTake1,
  SubscribeOnObserveOn,
  /// `observe_on(..).tap(first item: sleep 1 ms)`: a consumer that is slow at its first item
  ObserveOnSlowFirst,
  /// `flat_map(|x| just(x).observe_on(..))`: the hand-over to a worker inside an inner pipeline - the last
  /// inner completes on its worker while the outer completes on the emitting thread
  FlatMapObserveOn,
}

fn build(p: Pipe, src: Observable<'static, i64>) -> Observable<'static, i64> {
  let nt = || schedulers::new_thread_scheduler();
  match p {
    Pipe::ObserveOn => src.observe_on(nt()),
    Pipe::MapObserveOn => src.map(|x| x).observe_on(nt()),
    Pipe::ObserveOnMap => src.observe_on(nt()).map(|x| x),
    Pipe::ObserveOnTake1 => src.observe_on(nt()).take(1),
    Pipe::ObserveOnTwice => src.observe_on(nt()).observe_on(nt()),
    Pipe::SubscribeOn => src.subscribe_on(nt()),
    Pipe::SubscribeOnMap => src.subscribe_on(nt()).map(|x| x),
    Pipe::SubscribeOnTake1 => src.subscribe_on(nt()).take(1),
    Pipe::SubscribeOnObserveOn => src.subscribe_on(nt()).observe_on(nt()),
    Pipe::FlatMapObserveOn => src.flat_map(move |x| observables::just(x).observe_on(schedulers::new_thread_scheduler())),
    Pipe::ObserveOnSlowFirst => src.observe_on(nt()).tap(
      |x: i64| {
        if x == 1 {
          another_rxrust::vstd::thread::sleep(std::time::Duration::from_millis(1));
        }
      },
      |_| {},
      || {},
    ),
  }
}

fn is_subscribe_on(p: Pipe) -> bool {
  matches!(p, Pipe::SubscribeOn | Pipe::SubscribeOnMap | Pipe::SubscribeOnTake1 | Pipe::SubscribeOnObserveOn)
}
fn has_observe_on(p: Pipe) -> bool {
  !matches!(p, Pipe::SubscribeOn | Pipe::SubscribeOnMap | Pipe::SubscribeOnTake1)
}

/// the same Observable value subscribed twice, the second time after the first run is over
pub fn twice_scn(p: Pipe, script: Vec<Emit<i64>>, threaded: bool, q: Option<u32>, t: Option<u32>) -> Scn {
  let name = format!("c09/{:?} {} source P({}) subscribed twice in a row", p, if threaded { "threaded" } else { "synchronous" }, script_label(&script));
  let family = if is_subscribe_on(p) { "subscribe_on" } else { "observe_on" };
  let mut sc = scn(&name, family, q, t, move || {
    let (r1, r2) = (Rec::new(), Rec::new());
    let causes = Causes::new();
    let (r1b, r2b, causes2, script2) = (r1.clone(), r2.clone(), causes.clone(), script.clone());
    let body: Body = Box::new(move || {
      let src = if threaded { threaded_source("a", script2.clone(), vec![], causes2.clone()) } else { sync_source("a", script2.clone(), causes2.clone()) };
      let o = build(p, src);
      let _s1 = r1b.sub_i64(&o);
      // virtual time only advances when nothing else can run: this waits for the first run to finish
      another_rxrust::vstd::thread::sleep(ms(5));
      let _s2 = r2b.sub_i64(&o);
    });
    let script3 = script.clone();
    let check: Check = Box::new(move |e: &ExecEnd| {
      let mut v = base_violations(e, &[]);
      let take1 = matches!(p, Pipe::ObserveOnTake1 | Pipe::SubscribeOnTake1);
      let want: Vec<EvK> = script3
        .iter()
        .map(|x| match x {
          Emit::N(k) => EvK::Next(*k),
          Emit::E(k) => EvK::Error(*k),
          Emit::C => EvK::Complete,
        })
        .collect();
      let want: Vec<EvK> = if take1 && matches!(want.first(), Some(EvK::Next(_))) { vec![want[0].clone(), EvK::Complete] } else { want };
      for (i, r) in [&r1, &r2].iter().enumerate() {
        let got: Vec<EvK> = r.events().iter().map(|x| x.k.clone()).collect();
        if got != want {
          v.push(viol(if i == 0 { "first-subscription-wrong" } else { "second-subscription-lost-events" }, format!("subscription {} got {}, want {:?}; threads {}", i + 1, r.short(), want, thread_summary(e))));
        }
      }
      Verdict { outcome: format!("{} || {} | {}", r1.short(), r2.short(), thread_summary(e)), violations: v }
    });
    (body, check)
  });
  sc.min_conflicts = 1;
  sc
}

pub fn pipe_scn(p: Pipe, script: Vec<Emit<i64>>, threaded: bool, unsub: bool, q: Option<u32>, t: Option<u32>) -> Scn {
  pipe_scn_gaps(p, script, vec![], threaded, unsub, q, t)
}

/// `gaps[i]`: virtual milliseconds the (threaded) source sleeps before its i-th event
pub fn pipe_scn_gaps(p: Pipe, script: Vec<Emit<i64>>, gaps: Vec<u64>, threaded: bool, unsub: bool, q: Option<u32>, t: Option<u32>) -> Scn {
  let name = format!(
    "c09/{:?} {} source P({}){}",
    p,
    if threaded { "threaded" } else { "synchronous" },
    script_label(&script),
    if unsub { " || unsubscribe" } else { "" }
  );
  let name = if gaps.iter().any(|g| *g > 0) { format!("{} with pauses {:?} ms", name, gaps) } else { name };
  let family = if is_subscribe_on(p) { "subscribe_on" } else { "observe_on" };
  let mut sc = scn(&name, family, q, t, move || {
    let rec = Rec::new();
    let causes = Causes::new();
    let unsub_ret: Arc<Mutex<Option<u64>>> = Arc::new(Mutex::new(None));
    let (rec2, causes2, script2, ur2) = (rec.clone(), causes.clone(), script.clone(), unsub_ret.clone());
    let gaps2 = gaps.clone();
    let body: Body = Box::new(move || {
      let src = if threaded { threaded_source("a", script2.clone(), gaps2.clone(), causes2.clone()) } else { sync_source("a", script2.clone(), causes2.clone()) };
      let o = build(p, src);
      let sub = rec2.sub_i64(&o);
      if unsub {
        sub.unsubscribe();
        *ur2.lock().unwrap() = Some(rxverif_rt::stamp());
      }
    });
    let script3 = script.clone();
    let check: Check = Box::new(move |e: &ExecEnd| {
      let has_terminal = script3.iter().any(|x| !matches!(x, Emit::N(_)));
      let take1 = matches!(p, Pipe::ObserveOnTake1 | Pipe::SubscribeOnTake1);
      let n_items = script3.iter().filter(|x| matches!(x, Emit::N(_))).count();
      let ends_itself = has_terminal || (take1 && n_items >= 1);
      // an idle worker is legitimate only while the subscription is still live
      let allowed: Vec<usize> = if ends_itself || unsub { vec![] } else { e.cond_blocked() };
      let mut v = base_violations(e, &allowed);
      let ev = rec.events();
      let want: Vec<EvK> = script3
        .iter()
        .map(|x| match x {
          Emit::N(k) => EvK::Next(*k),
          Emit::E(k) => EvK::Error(*k),
          Emit::C => EvK::Complete,
        })
        .collect();
      let want: Vec<EvK> = if take1 && n_items >= 1 { vec![want[0].clone(), EvK::Complete] } else { want };
      let got: Vec<EvK> = ev.iter().map(|x| x.k.clone()).collect();
      if unsub {
        if !want.starts_with(&got) {
          v.push(viol("not-a-prefix-of-the-emitted-sequence", format!("got {}, emitted {:?}", rec.short(), want)));
        }
      } else if got != want {
        let class = if want.starts_with(&got) { "events-lost" } else { "reordered-or-wrong" };
        v.push(viol(class, format!("got {}, want {:?}; threads {}", rec.short(), want, thread_summary(e))));
      }
      if let Some(o) = rec.overlap() {
        v.push(viol("two-callbacks-at-once", o));
      }
      // one worker thread, not an emitting thread
      let emitters: Vec<usize> = causes.m.lock().unwrap().iter().map(|c| c.0).collect();
      // (inside a flat_map the completion may come from the thread on which the outer source completed:
      // the thread clauses speak about the items there)
      let in_flat_map = matches!(p, Pipe::FlatMapObserveOn);
      let mut tids: Vec<usize> = ev.iter().filter(|x| !in_flat_map || matches!(x.k, EvK::Next(_))).map(|x| x.tid).collect();
      tids.dedup();
      tids.sort();
      tids.dedup();
      if tids.len() > 1 {
        v.push(viol("callbacks-on-several-threads", format!("callbacks ran on threads {:?}", tids)));
      }
      if has_observe_on(p) {
        if let Some(t) = tids.first() {
          if *t == 0 || emitters.contains(t) {
            v.push(viol("callback-on-the-emitting-thread", format!("callbacks on t{}, emissions on {:?}", t, emitters)));
          }
        }
      }
      if is_subscribe_on(p) && !threaded {
        // the source's subscription (hence a synchronous source's emissions) runs on the scheduler's thread
        let mut et = emitters.clone();
        et.sort();
        et.dedup();
        if et.contains(&0) || et.len() > 1 {
          v.push(viol("source-not-on-the-scheduler-thread", format!("emissions happened on threads {:?}", et)));
        }
      }
      // nothing whose emission started after unsubscribe returned
      if let Some(ur) = *unsub_ret.lock().unwrap() {
        for x in &ev {
          let label = match &x.k {
            EvK::Next(k) => format!("a:n{}", k),
            EvK::Error(k) => format!("a:E{}", k),
            EvK::Complete => "a:C".to_string(),
          };
          let started = causes.m.lock().unwrap().iter().find(|c| c.2 == label).map(|c| c.1);
          if let Some(s0) = started {
            if s0 > ur && x.enter > ur {
              v.push(viol("delivered-after-unsubscribe", format!("{:?} was emitted at {} and delivered at {}, unsubscribe had returned at {}", x.k, s0, x.enter, ur)));
            }
          }
        }
      }
      Verdict { outcome: format!("{} | {}", rec.short(), thread_summary(e)), violations: v }
    });
    (body, check)
  });
  if !threaded && !unsub {
    sc.min_conflicts = 1;
  }
  sc
}

/// a callback (running on the worker) emits into the subject that feeds observe_on while a
/// producer thread emits too: the fed-back item goes through the queue like any other
pub fn feedback_scn(terminal: bool, q: Option<u32>, t: Option<u32>) -> Scn {
  let name = format!("c09/Subject.observe_on: the callback of n1 calls {} on the subject || P(n1,n2,n3)", if terminal { "complete" } else { "next(10)" });
  scn(&name, "observe_on", q, t, move || {
    let rec = Rec::new();
    let stamps = Stamps::new();
    let (rec2, st2) = (rec.clone(), stamps.clone());
    let body: Body = Box::new(move || {
      let sbj = subjects::Subject::<i64>::new();
      let o = sbj.observable().observe_on(schedulers::new_thread_scheduler());
      let (r_n, r_e, r_c) = (rec2.clone(), rec2.clone(), rec2.clone());
      let (sbj_cb, st_cb) = (sbj.clone(), st2.clone());
      let _sub = o.subscribe(
        move |x: i64| {
          r_n.cb(EvK::Next(x));
          if x == 1 {
            st_cb.mark("feedback-start");
            if terminal {
              sbj_cb.complete()
            } else {
              sbj_cb.next(10)
            }
            st_cb.mark("feedback-end");
          }
        },
        move |e| r_e.cb(EvK::Error(err_code(&e))),
        move || r_c.cb(EvK::Complete),
      );
      let (sbj_p, st_p) = (sbj.clone(), st2.clone());
      let h = another_rxrust::vstd::thread::spawn(move || {
        for v in [1i64, 2, 3] {
          st_p.mark(&format!("push-start:{}", v));
          sbj_p.next(v);
          st_p.mark(&format!("push-end:{}", v));
        }
      });
      let _ = h.join();
      // let the worker drain
      another_rxrust::vstd::thread::sleep(ms(5));
      _sub.unsubscribe();
    });
    let check: Check = Box::new(move |e: &ExecEnd| {
      let mut v = base_violations(e, &[]);
      if let Some(o) = rec.overlap() {
        v.push(viol("two-callbacks-at-once", o));
      }
      let got = rec.items();
      let ev = rec.events();
      // per-producer order and nothing twice
      let mine: Vec<i64> = got.iter().cloned().filter(|x| [1, 2, 3].contains(x)).collect();
      if mine != vec![1, 2, 3][..mine.len().min(3)].to_vec() || mine.len() > 3 {
        v.push(viol("reordered-or-wrong", format!("got {}", rec.short())));
      }
      // FIFO: an event whose emitting call returned before another one's started is delivered first
      let fs = stamps.get("feedback-start");
      for x in [2i64, 3] {
        if let (Some(pe), Some(fs)) = (stamps.get(&format!("push-end:{}", x)), fs) {
          let px = ev.iter().position(|e| e.k == EvK::Next(x));
          let pf = ev.iter().position(|e| if terminal { e.k == EvK::Complete } else { e.k == EvK::Next(10) });
          if pe < fs {
            match (px, pf) {
              (Some(a), Some(b)) if a > b => v.push(viol("fed-back-event-overtook-a-queued-one", format!("next({}) had returned before the callback emitted, yet it was delivered later: {}", x, rec.short()))),
              (None, Some(_)) => v.push(viol("events-lost", format!("next({}) had returned before the callback emitted and was never delivered: {}", x, rec.short()))),
              _ => {}
            }
          }
        }
      }
      if !terminal && fs.is_some() && (got.len() != 4 || !got.contains(&10)) {
        v.push(viol("events-lost", format!("got {}, want the four items", rec.short())));
      }
      let mut tids: Vec<usize> = ev.iter().map(|x| x.tid).collect();
      tids.sort();
      tids.dedup();
      if tids.len() > 1 {
        v.push(viol("callbacks-on-several-threads", format!("callbacks ran on threads {:?}", tids)));
      }
      Verdict { outcome: format!("{} | {}", rec.short(), thread_summary(e)), violations: v }
    });
    (body, check)
  })
}

pub fn scenarios() -> Vec<Scn> {
  use Emit::*;
  let scripts: Vec<Vec<Emit<i64>>> = vec![vec![C], vec![N(1), C], vec![N(1), N(2), C], vec![N(1), E(7)], vec![N(1), N(2)], vec![E(7)]];
  let mut v = vec![];
  for p in [Pipe::ObserveOn, Pipe::MapObserveOn, Pipe::ObserveOnMap, Pipe::ObserveOnTake1, Pipe::ObserveOnTwice, Pipe::SubscribeOn, Pipe::SubscribeOnMap, Pipe::SubscribeOnTake1, Pipe::SubscribeOnObserveOn] {
    for (si, sc) in scripts.iter().enumerate() {
      for threaded in [false, true] {
        for unsub in [false, true] {
          // (a terminal with no item before it: scripts 0 and 5)
          let core = matches!(p, Pipe::ObserveOn | Pipe::SubscribeOn) && (si == 2 || si == 3) || matches!(p, Pipe::ObserveOn | Pipe::MapObserveOn | Pipe::ObserveOnTwice) && (si == 0 || si == 5) && !unsub;
          let second = matches!(p, Pipe::ObserveOnTake1 | Pipe::ObserveOnTwice | Pipe::SubscribeOnObserveOn | Pipe::ObserveOnMap) && si == 2 && !threaded;
          let heavy = matches!(p, Pipe::ObserveOnTwice | Pipe::SubscribeOnObserveOn);
          let q = if core { Some(2) } else if second { Some(if heavy { 1 } else { 2 }) } else { None };
          let t = Some(if heavy || (threaded && unsub) { 2 } else { 3 });
          v.push(pipe_scn(p, sc.clone(), threaded, unsub, q, t));
        }
      }
    }
    // a burst far longer than any small constant the hand-over might batch or cap by
    if matches!(p, Pipe::ObserveOn | Pipe::SubscribeOn | Pipe::ObserveOnTwice | Pipe::SubscribeOnObserveOn) {
      let burst: Vec<Emit<i64>> = (1..=20).map(N).chain(std::iter::once(C)).collect();
      v.push(pipe_scn(p, burst.clone(), false, false, Some(1), Some(2)));
      v.push(pipe_scn(p, burst, true, false, Some(1), Some(1)));
    }
    // ... and one beyond the usual powers of two a back-log threshold might be set to (seed C09-h)
    if matches!(p, Pipe::ObserveOn) {
      let long: Vec<Emit<i64>> = (1..=1100).map(N).chain(std::iter::once(C)).collect();
      let mut s = pipe_scn(p, long, false, false, Some(0), Some(1));
      s.min_conflicts = 1; // quick tier: the default schedule only
      s.cfg.max_steps = 200_000;
      v.push(s);
    }
    // re-subscription of the same Observable value
    v.push(twice_scn(p, vec![N(1), N(2), C], false, Some(1), Some(2)));
    v.push(twice_scn(p, vec![N(1), E(7)], true, None, Some(2)));
  }
  // the long burst again, with a consumer that is slow at its first item (the back-log builds up
  // behind a worker that is asleep, not behind one that was never scheduled)
  {
    let long: Vec<Emit<i64>> = (1..=1100).map(N).chain(std::iter::once(C)).collect();
    let mut s = pipe_scn(Pipe::ObserveOnSlowFirst, long, false, false, Some(0), Some(1));
    s.min_conflicts = 1;
    s.cfg.max_steps = 200_000;
    v.push(s);
  }
  // observe_on inside a flat_map inner pipeline (one item: the order between inners is not fixed)
  for threaded in [false, true] {
    v.push(pipe_scn(Pipe::FlatMapObserveOn, vec![N(1), C], threaded, false, Some(2), Some(3)));
  }
  // (no error script here: an outer error legitimately cuts ahead of an item that is still on its way
  // through an inner pipeline's worker, and then two threads deliver - that is flat_map's, not observe_on's)
  // a long quiet period in the middle of the stream (one minute of virtual time): the worker that has
  // delivered the first item is still there for the second
  for p in [Pipe::ObserveOn, Pipe::ObserveOnTwice, Pipe::SubscribeOnObserveOn] {
    let quick = p == Pipe::ObserveOn;
    v.push(pipe_scn_gaps(p, vec![N(1), N(2), C], vec![0, 60_000, 0], true, false, if quick { Some(2) } else { None }, Some(2)));
    v.push(pipe_scn_gaps(p, vec![N(1), E(7)], vec![0, 60_000], true, false, if quick { Some(1) } else { None }, Some(2)));
  }
  v.push(feedback_scn(false, Some(2), Some(3)));
  v.push(feedback_scn(true, Some(2), Some(3)));
  v
}
