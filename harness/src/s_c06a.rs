//! C06, sequential clause, for the one subject type that is not a source kind of engine S: an
//! AsyncSubject below a pipeline. Every call sequence up to a small length over
//! {subscribe_i, unsubscribe_i, next, complete, error} with the observers attached through an
//! operator; oracle: until the subject's terminal, the subject holds exactly the observers whose
//! subscription is live (an early unsubscribe - or an operator that ends by itself - reaches the
//! subject's registry). Seed C06-l: observable() subscribed an inner take_last(1) pipeline through the
//! public subscribe and dropped that Subscription.
use crate::json::{obj, s};
use crate::report::{Finding, Report};
use crate::tcommon::{err, AnySubject, SubjKind};
use another_rxrust::prelude::*;
use rxverif_rt::exec::{payload_to_string, set_monitor_mode};
use std::collections::BTreeMap;
use std::panic::{catch_unwind, AssertUnwindSafe};

#[derive(Clone, Copy, Debug, PartialEq)]
enum Call {
  Sub(usize),
  Unsub(usize),
  Next,
  Complete,
  Error,
}

#[derive(Clone, Copy, Debug, PartialEq)]
enum Attach {
  Direct,
  Map,
  TakeUntilSilent,
  SkipWhileTap,
}

fn histories(max: usize) -> Vec<Vec<Call>> {
  let alpha = [Call::Sub(0), Call::Sub(1), Call::Unsub(0), Call::Unsub(1), Call::Next, Call::Complete, Call::Error];
  let mut out = vec![];
  let mut cur: Vec<Vec<Call>> = vec![vec![]];
  for _ in 0..max {
    let mut next = vec![];
    for h in &cur {
      for c in alpha {
        // observers are named in subscription order and subscribe once; unsubscribe needs a subscription
        let ok = match c {
          Call::Sub(i) => !h.contains(&Call::Sub(i)) && (i == 0 || h.contains(&Call::Sub(0))),
          Call::Unsub(i) => h.contains(&Call::Sub(i)),
          _ => true,
        };
        // nothing is claimed after the subject's terminal (C10's ground): stop there
        let ended = h.iter().any(|x| matches!(x, Call::Complete | Call::Error));
        if ok && !ended {
          let mut n = h.clone();
          n.push(c);
          next.push(n);
        }
      }
    }
    out.extend(next.iter().cloned());
    cur = next;
  }
  out.into_iter().filter(|h| h.iter().any(|c| matches!(c, Call::Sub(_)))).collect()
}

fn run_one(at: Attach, h: &[Call]) -> Result<Option<String>, String> {
  set_monitor_mode(true);
  let r = catch_unwind(AssertUnwindSafe(|| {
    let sbj = AnySubject::new(SubjKind::Async);
    let silent = subjects::Subject::<i64>::new();
    let mut subs: Vec<Option<Subscription<'static>>> = vec![None, None];
    let mut live: Vec<bool> = vec![false, false];
    let mut verdict = None;
    for (st, c) in h.iter().enumerate() {
      match c {
        Call::Sub(i) => {
          let o = sbj.observable();
          let o = match at {
            Attach::Direct => o,
            Attach::Map => o.map(|x| x + 1),
            Attach::TakeUntilSilent => o.take_until(silent.observable()),
            Attach::SkipWhileTap => o.skip_while(|x| x < 0).tap(|_| {}, |_| {}, || {}),
          };
          subs[*i] = Some(o.subscribe(|_| {}, |_| {}, || {}));
          live[*i] = true;
        }
        Call::Unsub(i) => {
          if let Some(x) = &subs[*i] {
            x.unsubscribe();
          }
          live[*i] = false;
        }
        Call::Next => sbj.next(st as i64),
        Call::Complete => sbj.complete(),
        Call::Error => sbj.error(err(7)),
      }
      if matches!(c, Call::Complete | Call::Error) {
        break;
      }
      let want = live.iter().filter(|x| **x).count();
      let got = sbj.observer_count();
      if got != want && verdict.is_none() {
        verdict = Some(format!("after step {} ({:?}) the AsyncSubject holds {} observer(s), {} subscription(s) are live | attached {:?} | history {:?}", st, c, got, want, at, h));
      }
    }
    for x in subs.iter().flatten() {
      x.unsubscribe();
    }
    verdict
  }));
  set_monitor_mode(false);
  match r {
    Ok(v) => Ok(v),
    Err(p) => Err(format!("panic: {} | attached {:?} | history {:?}", payload_to_string(&*p), at, h)),
  }
}

pub fn run(r: &mut Report, th: bool) {
  let hs = histories(if th { 7 } else { 5 });
  let mut found: BTreeMap<String, (String, u64)> = BTreeMap::new();
  let (mut runs, mut steps, mut nontrivial) = (0u64, 0u64, 0u64);
  for at in [Attach::Direct, Attach::Map, Attach::TakeUntilSilent, Attach::SkipWhileTap] {
    for h in &hs {
      runs += 1;
      steps += h.len() as u64;
      if h.iter().any(|c| matches!(c, Call::Unsub(_))) {
        nontrivial += 1;
      }
      let (class, d) = match run_one(at, h) {
        Ok(None) => continue,
        Ok(Some(d)) => ("subject-still-holds-observer", d),
        Err(d) => ("panic", d),
      };
      let e = found.entry(format!("AsyncSubject below {:?}/{}", at, class)).or_insert((d, 0));
      e.1 += 1;
    }
  }
  r.traces += runs;
  r.transitions += steps;
  r.states += runs + steps;
  println!("  {:<40} runs={:>9} steps={:>10} nontrivial={:>9} findings={}", "AsyncSubject below a pipeline: observer count", runs, steps, nontrivial, found.len());
  r.extra.push((
    "async_subject_histories".to_string(),
    obj(vec![("runs", crate::json::J::I(runs as i64)), ("steps", crate::json::J::I(steps as i64)), ("with_an_unsubscribe", crate::json::J::I(nontrivial as i64))]),
  ));
  for (k, (d, n)) in found {
    r.add_finding(Finding { key: k, detail: d.clone(), replay: obj(vec![("engine", s("S")), ("detail", s(d))]), count: n });
  }
}
