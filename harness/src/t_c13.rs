//! C13 (cross-thread clause) — ref_count()/replay() count their subscribers
//! correctly when these arrive and leave on different threads: the source is
//! subscribed while there is a subscriber, at most once at a time.
use crate::tcommon::*;
use another_rxrust::prelude::*;
use another_rxrust::vstd::thread;
use rxverif_rt::exec::ExecEnd;
use rxverif_rt::explore::{Body, Check, Verdict};
use std::sync::{Arc, Mutex};

#[derive(Clone, Copy, Debug, PartialEq)]
enum Kind {
  RefCount,
  Replay,
}

#[derive(Clone, Copy, Debug, PartialEq)]
enum Shape {
  /// two subscribers arrive at an idle connectable at the same time
  TwoArrive,
  /// the only subscriber leaves while another one arrives
  LeaveAndArrive,
  /// two subscribers leave at the same time
  TwoLeave,
}

#[derive(Default)]
struct Out {
  live_after: usize,
  total: usize,
  max_live: usize,
}

fn live<T: Clone + Send + Sync + 'static>(h: &Hot<T>) -> usize {
  h.obs.lock().unwrap().clone().iter().filter(|o| o.is_subscribed()).count()
}

fn conn_scn(kind: Kind, shape: Shape, q: Option<u32>, t: Option<u32>) -> Scn {
  let name = format!("c13/{:?}: {:?}", kind, shape);
  scn(&name, "connectable-subscriber-count", q, t, move || {
    let (ra, rb) = (Rec::new(), Rec::new());
    let out = Arc::new(Mutex::new(Out::default()));
    let (ra2, rb2, out2) = (ra.clone(), rb.clone(), out.clone());
    let body: Body = Box::new(move || {
      let hot = Hot::<i64>::new();
      let o = match kind {
        Kind::RefCount => hot.observable().ref_count().observable(),
        Kind::Replay => hot.observable().replay().observable(),
      };
      match shape {
        Shape::TwoArrive => {
          let (o1, r1) = (o.clone(), ra2.clone());
          let h = thread::spawn(move || r1.sub_i64(&o1));
          let sb = rb2.sub_i64(&o);
          let sa = h.join().unwrap();
          out2.lock().unwrap().max_live = live(&hot);
          hot.next(1);
          hot.next(2);
          sa.unsubscribe();
          sb.unsubscribe();
        }
        Shape::LeaveAndArrive => {
          let sa = ra2.sub_i64(&o);
          hot.next(1);
          let (o1, r1) = (o.clone(), rb2.clone());
          let h = thread::spawn(move || r1.sub_i64(&o1));
          sa.unsubscribe();
          let sb = h.join().unwrap();
          out2.lock().unwrap().max_live = live(&hot);
          hot.next(2);
          sb.unsubscribe();
        }
        Shape::TwoLeave => {
          let sa = ra2.sub_i64(&o);
          let sb = rb2.sub_i64(&o);
          hot.next(1);
          let h = thread::spawn(move || sa.unsubscribe());
          sb.unsubscribe();
          let _ = h.join();
          out2.lock().unwrap().max_live = live(&hot);
        }
      }
      let mut g = out2.lock().unwrap();
      g.live_after = live(&hot);
      g.total = *hot.subscribed.lock().unwrap();
    });
    let check: Check = Box::new(move |e: &ExecEnd| {
      let mut v = base_violations(e, &[]);
      let g = out.lock().unwrap();
      let (a, b) = (ra.items(), rb.items());
      match shape {
        Shape::TwoArrive => {
          if g.max_live != 1 {
            v.push(viol("source-subscription-count", format!("with two subscribers present the source has {} live subscription(s), want exactly 1 (subscribed {} time(s) in all)", g.max_live, g.total)));
          }
          if a != vec![1, 2] || b != vec![1, 2] {
            v.push(viol("missing-items", format!("subscribers got {:?} and {:?}, both were present when 1 and 2 were emitted", a, b)));
          }
        }
        Shape::LeaveAndArrive => {
          if g.max_live != 1 {
            v.push(viol("source-subscription-count", format!("with one subscriber present the source has {} live subscription(s), want exactly 1 (subscribed {} time(s) in all)", g.max_live, g.total)));
          }
          if a != vec![1] {
            v.push(viol("wrong-items", format!("the first subscriber got {:?}, want [1]", a)));
          }
          // replay(): everything from the beginning - unless its arrival re-connected the source (then the history starts anew is not fixed; accept both)
          let ok_b = match kind {
            Kind::RefCount => b == vec![2],
            Kind::Replay => b == vec![2] || b == vec![1, 2],
          };
          if !ok_b {
            v.push(viol("wrong-items", format!("the second subscriber got {:?}", b)));
          }
        }
        Shape::TwoLeave => {
          if g.max_live != 0 {
            v.push(viol("source-still-subscribed", format!("both subscribers have left, the source still has {} live subscription(s)", g.max_live)));
          }
        }
      }
      if g.live_after != 0 {
        v.push(viol("source-still-subscribed", format!("everybody has left, the source still has {} live subscription(s)", g.live_after)));
      }
      Verdict { outcome: format!("A:{} | B:{} | live {} total {}", ra.short(), rb.short(), g.max_live, g.total), violations: v }
    });
    (body, check)
  })
}

pub fn scenarios() -> Vec<Scn> {
  let mut v = vec![];
  for k in [Kind::RefCount, Kind::Replay] {
    v.push(conn_scn(k, Shape::TwoArrive, Some(2), Some(3)));
    v.push(conn_scn(k, Shape::LeaveAndArrive, Some(2), Some(3)));
    v.push(conn_scn(k, Shape::TwoLeave, Some(2), Some(3)));
  }
  v
}
