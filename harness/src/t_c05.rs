//! C05 (cross-thread clause) — once unsubscribe() has returned, no event that a
//! source starts to emit afterwards reaches the subscriber.
use crate::tcommon::*;
use another_rxrust::prelude::*;
use another_rxrust::vstd::thread;
use rxverif_rt::exec::ExecEnd;
use rxverif_rt::explore::{Body, Check, Verdict};
use std::sync::{Arc, Mutex};

#[derive(Clone, Copy, Debug, PartialEq)]
enum Shape {
  Direct,
  /// producers that never check is_subscribed()
  RudeDirect,
  RudeMap,
  RudeMerge,
  Map,
  MapFilterTake,
  Merge,
  Subject,
  SubjectMap,
  FlatMap,
  ObserveOn,
  Interval,
  /// a rude producer thread below one operator with state of its own (index into RUDE_OPS)
  RudeOp(usize),
}

const RUDE_OPS: [&str; 12] = ["scan", "buffer_with_count(2)", "window_with_count(2).flat_map", "group_by.flat_map", "distinct_until_changed", "start_with", "skip(1)", "materialize.dematerialize", "take_while", "tap", "ref_count", "replay"];

fn unsub_scn(shape: Shape, q: Option<u32>, t: Option<u32>) -> Scn {
  let name = match shape {
    Shape::RudeOp(k) => format!("c05/Rude.{} P(1,2,3) || unsubscribe", RUDE_OPS[k]),
    _ => format!("c05/{:?} P(1,2,3) || unsubscribe", shape),
  };
  let mut sc = scn(&name, "unsubscribe-vs-emitting-thread", q, t, move || {
    let rec = Rec::new();
    let causes = Causes::new();
    let unsub_ret: Arc<Mutex<Option<u64>>> = Arc::new(Mutex::new(None));
    let live_after: Arc<Mutex<Option<bool>>> = Arc::new(Mutex::new(None));
    let (rec2, causes2, ur2, la2) = (rec.clone(), causes.clone(), unsub_ret.clone(), live_after.clone());
    let body: Body = Box::new(move || {
      use Emit::*;
      let a = || threaded_source("a", vec![N(1), N(2), N(3), C], vec![], causes2.clone());
      let b = || threaded_source("b", vec![N(11), N(12), C], vec![], causes2.clone());
      let mut producer = None;
      let ra = || rude_threaded_source("a", vec![N(1), N(2), N(3), C], causes2.clone());
      let rb = || rude_threaded_source("b", vec![N(11), N(12), C], causes2.clone());
      let o: Observable<'static, i64> = match shape {
        Shape::RudeDirect => ra(),
        Shape::RudeMap => ra().map(|x| x),
        Shape::RudeMerge => ra().merge(&[rb()]),
        Shape::RudeOp(k) => match RUDE_OPS[k] {
          "scan" => ra().scan(|(a, b)| a + b),
          "buffer_with_count(2)" => ra().buffer_with_count(2).map(|v| v.iter().sum()),
          "window_with_count(2).flat_map" => ra().window_with_count(2).flat_map(|w| w),
          "group_by.flat_map" => ra().group_by(|x| x % 2).flat_map(|g| g),
          "distinct_until_changed" => ra().distinct_until_changed(),
          "start_with" => ra().start_with([9i64].into_iter()),
          "skip(1)" => ra().skip(1),
          "materialize.dematerialize" => ra().materialize().dematerialize(),
          "take_while" => ra().take_while(|x| x < 3),
          "tap" => ra().tap(|_| {}, |_| {}, || {}),
          "ref_count" => ra().ref_count().observable(),
          _ => ra().replay().observable(),
        },
        Shape::Direct => a(),
        Shape::Map => a().map(|x| x),
        Shape::MapFilterTake => a().map(|x| x).filter(|_| true).take(5),
        Shape::Merge => a().merge(&[b()]),
        Shape::FlatMap => observables::from_iter(0..2).flat_map({
          let (a, b) = (a(), b());
          move |i| if i == 0 { a.clone() } else { b.clone() }
        }),
        Shape::ObserveOn => a().observe_on(schedulers::new_thread_scheduler()),
        Shape::Interval => observables::interval(ms(10), schedulers::new_thread_scheduler()).map(|x| x as i64),
        Shape::Subject | Shape::SubjectMap => {
          let sbj = subjects::Subject::<i64>::new();
          let o = if shape == Shape::SubjectMap { sbj.observable().map(|x| x) } else { sbj.observable() };
          let c = causes2.clone();
          producer = Some(move || {
            thread::spawn(move || {
              for v in [1, 2, 3] {
                c.mark(&format!("a:n{}", v));
                sbj.next(v);
              }
            });
          });
          o
        }
      };
      let sub = rec2.sub_i64(&o);
      if let Some(p) = producer {
        p();
      }
      if shape == Shape::Interval {
        thread::sleep(ms(15));
      }
      sub.unsubscribe();
      *ur2.lock().unwrap() = Some(rxverif_rt::stamp());
      *la2.lock().unwrap() = Some(sub.is_subscribed());
      // idempotent
      sub.unsubscribe();
    });
    let check: Check = Box::new(move |e: &ExecEnd| {
      let mut v = base_violations(e, &[]);
      let ur = unsub_ret.lock().unwrap().unwrap_or(u64::MAX);
      for x in rec.events() {
        if x.enter > ur {
          // the library call (of the thread the callback ran on) that caused it
          match causes.cause_of(x.tid, x.enter) {
            Some((c, what)) => {
              if c > ur {
                v.push(viol("delivered-after-unsubscribe", format!("{:?}: its emission ('{}') started at {}, unsubscribe had returned at {}; saw {}", x.k, what, c, ur, rec.short())));
              }
            }
            None => {
              if shape == Shape::Interval {
                // a tick: the timer thread woke after unsubscribe returned only if vt says so
                v.push(viol("tick-delivered-after-unsubscribe", format!("{:?} delivered at logical time {} (vt {} ms) after unsubscribe returned at {}", x.k, x.enter, x.vt / MS, ur)));
              }
            }
          }
        }
      }
      if *live_after.lock().unwrap() == Some(true) {
        v.push(viol("is_subscribed-true-after-unsubscribe", "Subscription::is_subscribed() returned true right after unsubscribe() returned".into()));
      }
      if let Some(o) = rec.overlap() {
        let _ = o;
      }
      Verdict { outcome: format!("{} | {}", rec.short(), thread_summary(e)), violations: v }
    });
    (body, check)
  });
  if shape == Shape::Interval {
    sc.cfg.skew = false;
  }
  sc
}

pub fn scenarios() -> Vec<Scn> {
  vec![
    unsub_scn(Shape::Direct, Some(2), Some(4)),
    unsub_scn(Shape::RudeDirect, Some(2), Some(4)),
    unsub_scn(Shape::RudeMap, Some(2), Some(3)),
    unsub_scn(Shape::RudeMerge, Some(1), Some(2)),
    unsub_scn(Shape::Map, Some(2), Some(3)),
    unsub_scn(Shape::MapFilterTake, None, Some(2)),
    unsub_scn(Shape::Merge, Some(1), Some(2)),
    unsub_scn(Shape::FlatMap, None, Some(2)),
    unsub_scn(Shape::Subject, Some(2), Some(4)),
    unsub_scn(Shape::SubjectMap, Some(2), Some(3)),
    unsub_scn(Shape::ObserveOn, Some(1), Some(2)),
    unsub_scn(Shape::Interval, Some(2), Some(3)),
  ]
  .into_iter()
  .chain((0..RUDE_OPS.len()).map(|k| unsub_scn(Shape::RudeOp(k), Some(1), Some(2))))
  .collect()
}
