//! C10 — subjects, sequentially: every call sequence up to a bounded length
//! over {subscribe_i, unsubscribe_i, next(v), error, complete} on the four
//! subject types, observers attached directly and through an operator,
//! compared stepwise with reference state machines.
use crate::json::{obj, s, J};
use crate::report::{Finding, Report};
use crate::s_val::{show_evs, Ev};
use crate::tcommon::{err_code, workers, AnySubject, SubjKind};
use another_rxrust::prelude::*;
use rxverif_rt::exec::{payload_to_string, set_monitor_mode, SelfDeadlock};
use std::collections::BTreeMap;
use std::panic::{catch_unwind, AssertUnwindSafe};
use std::sync::atomic::{AtomicUsize, Ordering};
use std::sync::{Arc, Mutex};

#[derive(Clone, Debug, PartialEq)]
pub enum Call {
  /// next(v) during which observer `.1`'s callback subscribes the new observer `.2`
  NextNested(i64, usize, usize),
  /// error() (true) / complete() (false) during which observer `.1`'s terminal callback subscribes the new observer `.2`
  TermNested(bool, usize, usize),
  Sub(usize),
  Unsub(usize),
  Next(i64),
  Error,
  Complete,
}
fn show(h: &[Call]) -> String {
  h.iter()
    .map(|c| match c {
      Call::NextNested(v, o, i) => format!("next({}) [observer {}'s callback subscribes observer {}]", v, o, i),
      Call::TermNested(e, o, i) => format!("{} [observer {}'s callback subscribes observer {}]", if *e { "error" } else { "complete" }, o, i),
      Call::Sub(i) => format!("subscribe_{}", i),
      Call::Unsub(i) => format!("unsubscribe_{}", i),
      Call::Next(v) => format!("next({})", v),
      Call::Error => "error".into(),
      Call::Complete => "complete".into(),
    })
    .collect::<Vec<_>>()
    .join(", ")
}

/// all histories of length <= max_len, observers named in order of
/// subscription (renaming symmetry), nothing but subscribe/unsubscribe after
/// the terminal (what a subject does with next after its terminal is not fixed)
fn rec(cur: &mut Vec<Call>, n_sub: usize, unsubbed: &mut Vec<u8>, terminated: u8, max_len: usize, max_obs: usize, emit_from: usize, out: &mut dyn FnMut(&[Call])) {
    if cur.len() > emit_from {
      out(cur);
    }
    if cur.len() >= max_len {
      return;
    }
    if n_sub < max_obs {
      cur.push(Call::Sub(n_sub));
      unsubbed.push(0);
      rec(cur, n_sub + 1, unsubbed, terminated, max_len, max_obs, emit_from, out);
      unsubbed.pop();
      cur.pop();
    }
    for i in 0..n_sub {
      // unsubscribe, and once more (idempotence)
      if unsubbed[i] < 2 {
        cur.push(Call::Unsub(i));
        unsubbed[i] += 1;
        rec(cur, n_sub, unsubbed, terminated, max_len, max_obs, emit_from, out);
        unsubbed[i] -= 1;
        cur.pop();
      }
    }
    if terminated == 1 {
      // one call a well-behaved caller would not make: next / a second terminal after the terminal
      for c in [Call::Next(1), Call::Error, Call::Complete] {
        cur.push(c);
        rec(cur, n_sub, unsubbed, 2, max_len, max_obs, emit_from, out);
        cur.pop();
      }
    }
    if terminated == 0 {
      for v in [1, 2] {
        cur.push(Call::Next(v));
        rec(cur, n_sub, unsubbed, 0, max_len, max_obs, emit_from, out);
        cur.pop();
      }
      // a subscriber joins from inside another observer's callback, i.e. while the item is being delivered
      if n_sub < max_obs {
        for o in 0..n_sub {
          if unsubbed[o] == 0 {
            cur.push(Call::NextNested(1, o, n_sub));
            unsubbed.push(0);
            rec(cur, n_sub + 1, unsubbed, 0, max_len, max_obs, emit_from, out);
            unsubbed.pop();
            cur.pop();
          }
        }
      }
      for t in [Call::Error, Call::Complete] {
        cur.push(t);
        rec(cur, n_sub, unsubbed, 1, max_len, max_obs, emit_from, out);
        cur.pop();
      }
      // a subscriber joins from inside another observer's terminal callback
      if n_sub < max_obs {
        for o in 0..n_sub {
          if unsubbed[o] == 0 {
            for e in [true, false] {
              cur.push(Call::TermNested(e, o, n_sub));
              unsubbed.push(0);
              rec(cur, n_sub + 1, unsubbed, 1, max_len, max_obs, emit_from, out);
              unsubbed.pop();
              cur.pop();
            }
          }
        }
      }
    }
  }

/// every history of length 1..=max_len (stored)
pub fn histories(max_len: usize, max_obs: usize) -> Vec<Vec<Call>> {
  let mut out = vec![];
  rec(&mut vec![], 0, &mut vec![], 0, max_len, max_obs, 0, &mut |h| out.push(h.to_vec()));
  out
}

/// every proper extension of `prefix` up to max_len, streamed to `sink`
pub fn extensions(prefix: &[Call], max_len: usize, max_obs: usize, sink: &mut dyn FnMut(&[Call])) {
  let mut n_sub = 0;
  let mut unsubbed: Vec<u8> = vec![];
  let mut terminated = 0u8;
  for c in prefix {
    match c {
      Call::Sub(_) => {
        n_sub += 1;
        unsubbed.push(0);
      }
      Call::NextNested(..) => {
        n_sub += 1;
        unsubbed.push(0);
      }
      Call::TermNested(..) => {
        n_sub += 1;
        unsubbed.push(0);
        terminated = 1;
      }
      Call::Unsub(i) => unsubbed[*i] += 1,
      Call::Next(_) => {
        if terminated >= 1 {
          terminated = 2
        }
      }
      Call::Error | Call::Complete => terminated = if terminated == 0 { 1 } else { 2 },
    }
  }
  let mut cur = prefix.to_vec();
  rec(&mut cur, n_sub, &mut unsubbed, terminated, max_len, max_obs, prefix.len(), sink);
}

#[derive(Clone, Debug, PartialEq)]
enum Exp {
  Exactly(Vec<Ev>),
  /// any of these
  OneOf(Vec<Vec<Ev>>),
  /// not fixed by the statement
  Anything,
}

/// reference: expected events per observer per step, live-observer count per step
/// how an observer is attached to the subject
#[derive(Clone, Copy, Debug, PartialEq)]
pub enum Attach {
  Direct,
  Map,
  /// through take(1): the observer ends by itself with its first item, possibly during the hand-over
  Take1,
}

fn reference(kind: SubjKind, attach: Attach, h: &[Call]) -> (Vec<Vec<Exp>>, Vec<Option<usize>>, u64) {
  let n_obs = h.iter().filter(|c| matches!(c, Call::Sub(_) | Call::NextNested(..) | Call::TermNested(..))).count();
  let mut live: Vec<usize> = vec![];
  let mut items: Vec<i64> = vec![];
  let mut current: i64 = 0; // BehaviorSubject::new(0)
  let mut terminal: Option<Ev> = None;
  // AsyncSubject: the last item each live observer saw
  let mut seen: Vec<Option<i64>> = vec![None; n_obs];
  let mut last_pushed: Option<i64> = None;
  let mut steps = vec![];
  let mut counts = vec![];
  let mut permissive = 0u64;
  let mut count_known = true;
  // Take1: observers that have had their item; observers of which the reference cannot tell
  let mut ended: Vec<bool> = vec![false; n_obs];
  let mut unsure: Vec<bool> = vec![false; n_obs];
  // a plain / async subject called after its terminal: nothing is fixed from there on
  let mut unfixed = false;
  for c in h {
    let mut exp: Vec<Exp> = vec![Exp::Exactly(vec![]); n_obs];
    if terminal.is_some() && matches!(c, Call::Next(_) | Call::Error | Call::Complete) {
      match kind {
        // the first terminal is final: a later next / terminal changes nothing, for nobody
        SubjKind::Behavior | SubjKind::Replay => {}
        _ => unfixed = true,
      }
      if unfixed {
        permissive += 1;
        exp = vec![Exp::Anything; n_obs];
      }
      steps.push(exp);
      counts.push(if count_known && !unfixed { Some(live.len()) } else { None });
      continue;
    }
    match c {
      Call::Sub(i) => match (&terminal, kind) {
        (None, SubjKind::Plain) | (None, SubjKind::Async) => live.push(*i),
        (None, SubjKind::Behavior) => {
          exp[*i] = Exp::Exactly(vec![Ev::n(current)]);
          live.push(*i)
        }
        (None, SubjKind::Replay) => {
          exp[*i] = Exp::Exactly(items.iter().map(|v| Ev::n(*v)).collect());
          live.push(*i)
        }
        (Some(t), SubjKind::Behavior) => exp[*i] = Exp::Exactly(vec![t.clone()]),
        (Some(t), SubjKind::Replay) => {
          let mut v: Vec<Ev> = items.iter().map(|v| Ev::n(*v)).collect();
          v.push(t.clone());
          exp[*i] = Exp::Exactly(v)
        }
        (Some(_), _) => {
          // a plain / async subject and a subscriber that arrives after the terminal: not fixed
          exp[*i] = Exp::Anything;
          permissive += 1;
          count_known = false;
        }
      },
      Call::Unsub(i) => live.retain(|x| x != i),
      Call::NextNested(v, outer, inner) => {
        items.push(*v);
        current = *v;
        last_pushed = Some(*v);
        for o in &live {
          if kind == SubjKind::Async {
            seen[*o] = Some(*v);
          } else {
            exp[*o] = Exp::Exactly(vec![Ev::n(*v)]);
          }
        }
        // `inner` joins while v is being delivered (only if `outer` is a live observer, else nobody calls it)
        if live.contains(outer) && (kind != SubjKind::Async) {
          match kind {
            // every item pushed so far - including v - exactly once, in order
            SubjKind::Replay => exp[*inner] = Exp::Exactly(items.iter().map(|x| Ev::n(*x)).collect()),
            // the current value, once
            SubjKind::Behavior => exp[*inner] = Exp::Exactly(vec![Ev::n(*v)]),
            // whether the item being delivered also reaches the joiner is not fixed
            _ => {
              exp[*inner] = Exp::OneOf(vec![vec![], vec![Ev::n(*v)]]);
              permissive += 1;
            }
          }
          live.push(*inner);
        }
        // AsyncSubject: observer callbacks only run at completion, so nobody is called during next(v)
      }
      Call::Next(v) => {
        items.push(*v);
        current = *v;
        last_pushed = Some(*v);
        for o in &live {
          if kind == SubjKind::Async {
            seen[*o] = Some(*v);
          } else {
            exp[*o] = Exp::Exactly(vec![Ev::n(*v)]);
          }
        }
      }
      Call::Error => {
        terminal = Some(Ev::E(7));
        for o in &live {
          exp[*o] = Exp::Exactly(vec![Ev::E(7)]);
        }
        live.clear();
      }
      Call::TermNested(is_err, outer, inner) => {
        let t = if *is_err { Ev::E(7) } else { Ev::C };
        terminal = Some(t.clone());
        let outer_live = live.contains(outer);
        for o in &live {
          exp[*o] = match (kind, is_err) {
            (SubjKind::Async, false) => match (seen[*o], last_pushed) {
              (Some(v), _) => Exp::Exactly(vec![Ev::n(v), Ev::C]),
              (None, None) => Exp::Exactly(vec![Ev::C]),
              (None, Some(l)) => {
                permissive += 1;
                Exp::OneOf(vec![vec![Ev::C], vec![Ev::n(l), Ev::C]])
              }
            },
            _ => Exp::Exactly(vec![t.clone()]),
          };
        }
        live.clear();
        if outer_live {
          match kind {
            // the terminal is stored before anybody is told: the joiner is handed it
            SubjKind::Behavior => exp[*inner] = Exp::Exactly(vec![t.clone()]),
            SubjKind::Replay => {
              let mut v: Vec<Ev> = items.iter().map(|x| Ev::n(*x)).collect();
              v.push(t.clone());
              exp[*inner] = Exp::Exactly(v)
            }
            // a plain / async subject and a subscriber that arrives during / after the terminal: not fixed
            _ => {
              exp[*inner] = Exp::Anything;
              permissive += 1;
              count_known = false;
            }
          }
        }
      }
      Call::Complete => {
        terminal = Some(Ev::C);
        for o in &live {
          exp[*o] = match kind {
            SubjKind::Async => match (seen[*o], last_pushed) {
              (Some(v), _) => Exp::Exactly(vec![Ev::n(v), Ev::C]),
              (None, None) => Exp::Exactly(vec![Ev::C]),
              // joined after the last push: Rx hands out the subject's last item, the
              // crate (take_last over a Subject) nothing - both satisfy the statement
              (None, Some(l)) => {
                permissive += 1;
                Exp::OneOf(vec![vec![Ev::C], vec![Ev::n(l), Ev::C]])
              }
            },
            _ => Exp::Exactly(vec![Ev::C]),
          };
        }
        live.clear();
      }
    }
    if attach == Attach::Take1 {
      let take1 = |v: &Vec<Ev>| -> (Vec<Ev>, bool) {
        match v.first() {
          Some(Ev::N(_)) => (vec![v[0].clone(), Ev::C], true),
          _ => (v.clone(), false),
        }
      };
      for o in 0..n_obs {
        if unsure[o] {
          exp[o] = Exp::Anything;
          continue;
        }
        if ended[o] {
          exp[o] = Exp::Exactly(vec![]);
          continue;
        }
        match exp[o].clone() {
          Exp::Exactly(v) => {
            let (w, e) = take1(&v);
            exp[o] = Exp::Exactly(w);
            if e {
              ended[o] = true;
              live.retain(|x| *x != o);
            }
          }
          Exp::OneOf(vs) => {
            let ws: Vec<(Vec<Ev>, bool)> = vs.iter().map(take1).collect();
            if ws.iter().any(|w| w.1) {
              unsure[o] = true;
              count_known = false;
            }
            exp[o] = Exp::OneOf(ws.into_iter().map(|w| w.0).collect());
          }
          Exp::Anything => {
            unsure[o] = true;
            count_known = false;
          }
        }
      }
    }
    if unfixed {
      exp = vec![Exp::Anything; n_obs];
    }
    steps.push(exp);
    counts.push(if count_known && !unfixed { Some(live.len()) } else { None });
  }
  (steps, counts, permissive)
}

struct RealOut {
  per_step: Vec<Vec<Vec<Ev>>>,
  counts: Vec<usize>,
  fault: Option<String>,
}

fn run_real(kind: SubjKind, via_map: Attach, shared: bool, h: &[Call]) -> RealOut {
  let n_obs = h.iter().filter(|c| matches!(c, Call::Sub(_) | Call::NextNested(..) | Call::TermNested(..))).count();
  let log: Arc<Mutex<Vec<(usize, usize, Ev)>>> = Arc::new(Mutex::new(vec![]));
  let step = Arc::new(AtomicUsize::new(0));
  let counts = Arc::new(Mutex::new(vec![]));
  set_monitor_mode(true);
  let r = catch_unwind(AssertUnwindSafe(|| {
    let sbj = AnySubject::new(kind);
    // every observer through one and the same Observable value, or each through its own
    let one: Option<Observable<'static, i64>> = if shared { Some(sbj.observable()) } else { None };
    let subs: Arc<Mutex<Vec<Option<Subscription<'static>>>>> = Arc::new(Mutex::new(vec![None; n_obs]));
    // armed by NextNested: (observer whose callback subscribes, the new observer)
    let armed: Arc<Mutex<Option<(usize, usize)>>> = Arc::new(Mutex::new(None));
    // subscribes observer i; its own next-callback may in turn subscribe another one
    fn subscribe_obs(
      i: usize,
      sbj: &AnySubject,
      via_map: Attach,
      one: &Option<Observable<'static, i64>>,
      log: &Arc<Mutex<Vec<(usize, usize, Ev)>>>,
      step: &Arc<AtomicUsize>,
      subs: &Arc<Mutex<Vec<Option<Subscription<'static>>>>>,
      armed: &Arc<Mutex<Option<(usize, usize)>>>,
    ) {
      let base = match one {
        Some(o) => o.clone(),
        None => sbj.observable(),
      };
      let o = match via_map {
        Attach::Direct => base,
        Attach::Map => base.map(|x| x),
        Attach::Take1 => base.take(1),
      };
      let (l1, l2, l3) = (log.clone(), log.clone(), log.clone());
      let (s1, s2, s3) = (step.clone(), step.clone(), step.clone());
      let (sbj2, log2, step2, subs2, armed2, one2) = (sbj.clone(), log.clone(), step.clone(), subs.clone(), armed.clone(), one.clone());
      let s = o.subscribe(
        move |x| {
          l1.lock().unwrap().push((s1.load(Ordering::Relaxed), i, Ev::n(x)));
          let fire = {
            let mut a = armed2.lock().unwrap();
            match *a {
              Some((outer, inner)) if outer == i => {
                *a = None;
                Some(inner)
              }
              _ => None,
            }
          };
          if let Some(inner) = fire {
            subscribe_obs(inner, &sbj2, via_map, &one2, &log2, &step2, &subs2, &armed2);
          }
        },
        {
          let (sbj3, log3, step3, subs3, armed3, one3) = (sbj.clone(), log.clone(), step.clone(), subs.clone(), armed.clone(), one.clone());
          move |e| {
            l2.lock().unwrap().push((s2.load(Ordering::Relaxed), i, Ev::E(err_code(&e))));
            let fire = {
              let mut a = armed3.lock().unwrap();
              match *a {
                Some((outer, inner)) if outer == i => {
                  *a = None;
                  Some(inner)
                }
                _ => None,
              }
            };
            if let Some(inner) = fire {
              subscribe_obs(inner, &sbj3, via_map, &one3, &log3, &step3, &subs3, &armed3);
            }
          }
        },
        {
          let (sbj4, log4, step4, subs4, armed4, one4) = (sbj.clone(), log.clone(), step.clone(), subs.clone(), armed.clone(), one.clone());
          move || {
            l3.lock().unwrap().push((s3.load(Ordering::Relaxed), i, Ev::C));
            let fire = {
              let mut a = armed4.lock().unwrap();
              match *a {
                Some((outer, inner)) if outer == i => {
                  *a = None;
                  Some(inner)
                }
                _ => None,
              }
            };
            if let Some(inner) = fire {
              subscribe_obs(inner, &sbj4, via_map, &one4, &log4, &step4, &subs4, &armed4);
            }
          }
        },
      );
      subs.lock().unwrap()[i] = Some(s);
    }
    for (si, c) in h.iter().enumerate() {
      step.store(si, Ordering::Relaxed);
      match c {
        Call::Sub(i) => subscribe_obs(*i, &sbj, via_map, &one, &log, &step, &subs, &armed),
        Call::NextNested(v, outer, inner) => {
          *armed.lock().unwrap() = Some((*outer, *inner));
          sbj.next(*v);
          *armed.lock().unwrap() = None;
        }
        Call::TermNested(is_err, outer, inner) => {
          *armed.lock().unwrap() = Some((*outer, *inner));
          if *is_err {
            sbj.error(crate::tcommon::err(7))
          } else {
            sbj.complete()
          }
          *armed.lock().unwrap() = None;
        }
        Call::Unsub(i) => {
          let s = subs.lock().unwrap()[*i].clone();
          if let Some(s) = s {
            s.unsubscribe()
          }
        }
        Call::Next(v) => sbj.next(*v),
        Call::Error => sbj.error(crate::tcommon::err(7)),
        Call::Complete => sbj.complete(),
      }
      counts.lock().unwrap().push(sbj.observer_count());
    }
    // end every subscription that is still live: a live subscription legitimately keeps its
    // pipeline alive (subscriber <-> controller), and hundreds of millions of them add up
    let rest: Vec<Subscription<'static>> = subs.lock().unwrap().iter().flatten().cloned().collect();
    for s in rest {
      s.unsubscribe();
    }
    subs.lock().unwrap().clear();
  }));
  set_monitor_mode(false);
  let fault = match r {
    Ok(()) => None,
    Err(p) => Some(match p.downcast_ref::<SelfDeadlock>() {
      Some(sd) => format!("self-deadlock: {}", sd.what),
      None => format!("panic: {}", payload_to_string(&*p)),
    }),
  };
  let mut per_step = vec![vec![vec![]; n_obs]; h.len()];
  for (st, o, e) in log.lock().unwrap().iter() {
    per_step[*st][*o].push(e.clone());
  }
  let c = counts.lock().unwrap().clone();
  RealOut { per_step, counts: c, fault }
}

pub fn check(tier: &str) -> Report {
  let th = tier == "thorough";
  let mut r = Report::new("C10", tier, "S");
  r.assumptions = vec![
    "reference = four state machines (live-observer list + stored history) of DESIGN.md Appendix A; permissive where the statement is silent (§6: plain/async subject with a subscriber arriving after the terminal; AsyncSubject observer that joined after the last push)".into(),
    "calls after the terminal other than subscribe/unsubscribe are not enumerated (not fixed by the statement)".into(),
  ];
  // streamed: the histories up to length P are the work items; the longer ones are generated, run and
  // dropped one at a time as extensions of the items of length P (nothing but the items is ever stored)
  let max_len = if th { 9 } else { 7 };
  const P: usize = 5;
  let hs = Arc::new(histories(max_len.min(P), 3));
  let total = AtomicUsize::new(0);
  let next = AtomicUsize::new(0);
  let kinds = [SubjKind::Plain, SubjKind::Behavior, SubjKind::Replay, SubjKind::Async];
  let findings: Mutex<BTreeMap<String, (String, u64)>> = Mutex::new(BTreeMap::new());
  let stats = Mutex::new((0u64, 0u64, 0u64, 0u64)); // runs, steps, permissive, nontrivial
  std::thread::scope(|sc| {
    for _ in 0..workers() {
      sc.spawn(|| {
        let mut local: BTreeMap<String, (String, u64)> = BTreeMap::new();
        let (mut runs, mut steps, mut perm, mut nontriv) = (0u64, 0u64, 0u64, 0u64);
        loop {
          let i = next.fetch_add(1, Ordering::Relaxed);
          if i >= hs.len() {
            break;
          }
          let mut process = |h: &[Call]| {
          total.fetch_add(1, Ordering::Relaxed);
          for kind in kinds {
            for via_map in [Attach::Direct, Attach::Map, Attach::Take1] {
              let (exp, counts, p) = reference(kind, via_map, h);
              perm += p;
              for shared in [false, true] {
              let real = run_real(kind, via_map, shared, h);
              runs += 1;
              steps += h.len() as u64;
              let name = format!("{:?}Subject{}{}", kind, match via_map { Attach::Direct => "", Attach::Map => ".map", Attach::Take1 => ".take(1)" }, if shared { " (one Observable value)" } else { "" });
              let mut add = |class: &str, detail: String| {
                let e = local.entry(format!("{}/{}", name, class)).or_insert((format!("{} | history: [{}]", detail, show(h)), 0));
                e.1 += 1;
              };
              if let Some(f) = &real.fault {
                add(if f.starts_with("self") { "self-deadlock" } else { "panic" }, f.clone());
                continue;
              }
              if exp.iter().flatten().any(|e| matches!(e, Exp::Exactly(v) if !v.is_empty())) {
                nontriv += 1;
              }
              'cmp: for st in 0..h.len() {
                for o in 0..exp[st].len() {
                  let got = &real.per_step[st][o];
                  let ok = match &exp[st][o] {
                    Exp::Exactly(v) => got == v,
                    Exp::OneOf(vs) => vs.iter().any(|v| v == got),
                    Exp::Anything => true,
                  };
                  if !ok {
                    let class = match (&exp[st][o], got.len()) {
                      (Exp::Exactly(v), n) if n > v.len() => "extra-events",
                      (Exp::Exactly(v), n) if n < v.len() => "missing-events",
                      _ => "wrong-events",
                    };
                    add(class, format!("step {} ({:?}): observer {} got [{}], reference {:?}", st, h[st], o, show_evs(got), exp[st][o]));
                    break 'cmp;
                  }
                }
                if let Some(want) = counts[st] {
                  if real.counts.get(st).cloned() != Some(want) {
                    add("observer-count", format!("after step {} ({:?}) the subject holds {:?} observers, reference {}", st, h[st], real.counts.get(st), want));
                    break 'cmp;
                  }
                }
              }
              }
            }
          }
          };
          let h = hs[i].clone();
          process(&h);
          if h.len() == P && max_len > P {
            extensions(&h, max_len, 3, &mut |e| process(e));
          }
        }
        let mut g = findings.lock().unwrap();
        for (k, v) in local {
          let e = g.entry(k).or_insert((v.0, 0));
          e.1 += v.1;
        }
        let mut s = stats.lock().unwrap();
        s.0 += runs;
        s.1 += steps;
        s.2 += perm;
        s.3 += nontriv;
      });
    }
  });
  let (runs, steps, perm, nontriv) = *stats.lock().unwrap();
  r.traces = runs;
  r.transitions = steps;
  r.states = steps + runs;
  for (k, (d, n)) in findings.into_inner().unwrap() {
    r.add_finding(Finding { key: k, detail: d.clone(), replay: obj(vec![("engine", s("S")), ("detail", s(d))]), count: n });
  }
  r.samples.push(s(format!("history: [{}]", show(&hs[hs.len() / 2]))));
  r.samples.push(s(format!("history: [{}]", show(&hs[hs.len() - 1]))));
  r.extra.push(("histories".into(), J::I(total.load(Ordering::Relaxed) as i64)));
  r.extra.push(("subject_types_x_attachment".into(), J::I(24)));
  r.extra.push(("nontrivial_runs".into(), J::I(nontriv as i64)));
  r.extra.push(("permissive_cases".into(), J::I(perm as i64)));
  r.extra.push(("explanation".into(), s("states = nodes of the call-sequence tree visited (one per call of every run + the initial state); transitions = calls executed on a fresh real subject; every run is compared stepwise and per observer with the reference state machine")));
  println!("  histories={} runs={} calls={} permissive={}", total.load(Ordering::Relaxed), runs, steps, perm);
  r
}
