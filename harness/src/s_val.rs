//! Engine S: the dynamic item type, events, and the fixed function families
//! shared by the real pipeline builder and the reference interpreter.
use std::sync::Arc;

#[derive(Clone, Debug, PartialEq, PartialOrd)]
pub enum D {
  I(i64),
  B(bool),
  U,
  L(Vec<D>),
  /// sum_and_count
  SC(Box<D>, usize),
  MNext(Box<D>),
  MErr(i64),
  MComplete,
  /// an inner observable delivered by window_with_count / group_by (its ordinal)
  Inner(u32),
}

impl D {
  pub fn i(&self) -> i64 {
    match self {
      D::I(x) => *x,
      D::B(b) => *b as i64,
      D::L(v) => v.iter().map(|x| x.i()).sum(),
      D::SC(s, _) => s.i(),
      D::MNext(x) => x.i(),
      _ => 0,
    }
  }
  pub fn show(&self) -> String {
    match self {
      D::I(x) => format!("{}", x),
      D::B(b) => format!("{}", b),
      D::U => "()".into(),
      D::L(v) => format!("[{}]", v.iter().map(|x| x.show()).collect::<Vec<_>>().join(",")),
      D::SC(s, c) => format!("({},{})", s.show(), c),
      D::MNext(x) => format!("Next({})", x.show()),
      D::MErr(k) => format!("Error({})", k),
      D::MComplete => "Complete".into(),
      D::Inner(k) => format!("obs#{}", k),
    }
  }
}

/// The item type every pipeline stage is instantiated at. The token lets C17
/// see whether anything still owns an item.
#[derive(Debug)]
pub struct V {
  pub d: D,
  pub tok: Option<Arc<()>>,
}

thread_local! {
  /// user code inside `Item::clone`: a one-shot action the driver arms for one emission; it runs
  /// the first time the library clones an item on this thread (engine S is single-threaded)
  static CLONE_HOOK: std::cell::RefCell<Option<Box<dyn FnOnce()>>> = const { std::cell::RefCell::new(None) };
}
thread_local! {
  /// user code inside an operator's function (map's f, filter's predicate, scan's accumulator, ...):
  /// a one-shot action the driver arms for one emission; it runs the first time the library calls
  /// one of the pipeline's user functions on this thread
  static FN_HOOK: std::cell::RefCell<Option<Box<dyn FnOnce()>>> = const { std::cell::RefCell::new(None) };
}
pub fn arm_fn_hook(f: Option<Box<dyn FnOnce()>>) {
  FN_HOOK.with(|h| *h.borrow_mut() = f);
}
/// called at the start of every user function the harness hands to an operator
pub fn user_fn_point() {
  let f = FN_HOOK.with(|h| h.borrow_mut().take());
  if let Some(f) = f {
    f();
  }
}
pub fn arm_clone_hook(f: Option<Box<dyn FnOnce()>>) {
  CLONE_HOOK.with(|h| *h.borrow_mut() = f);
}
impl Clone for V {
  fn clone(&self) -> V {
    let f = CLONE_HOOK.with(|h| h.borrow_mut().take());
    if let Some(f) = f {
      f();
    }
    V { d: self.d.clone(), tok: self.tok.clone() }
  }
}
impl V {
  pub fn new(d: D) -> V {
    V { d, tok: None }
  }
  pub fn int(x: i64) -> V {
    V { d: D::I(x), tok: None }
  }
  pub fn with(&self, d: D) -> V {
    V { d, tok: self.tok.clone() }
  }
}
impl PartialEq for V {
  fn eq(&self, o: &V) -> bool {
    self.d == o.d
  }
}
impl PartialOrd for V {
  fn partial_cmp(&self, o: &V) -> Option<std::cmp::Ordering> {
    self.d.partial_cmp(&o.d)
  }
}
impl std::ops::Add for V {
  type Output = V;
  fn add(self, o: V) -> V {
    V { d: D::I(self.d.i() + o.d.i()), tok: self.tok.or(o.tok) }
  }
}

#[derive(Clone, Debug, PartialEq)]
pub enum Ev {
  N(D),
  E(i64),
  C,
}
impl Ev {
  pub fn n(x: i64) -> Ev {
    Ev::N(D::I(x))
  }
  pub fn is_terminal(&self) -> bool {
    !matches!(self, Ev::N(_))
  }
  pub fn show(&self) -> String {
    match self {
      Ev::N(d) => format!("n{}", d.show()),
      Ev::E(k) => format!("E{}", k),
      Ev::C => "C".into(),
    }
  }
}
pub fn show_evs(v: &[Ev]) -> String {
  v.iter().map(|e| e.show()).collect::<Vec<_>>().join(" ")
}

#[derive(Clone, Copy, Debug, PartialEq)]
pub enum MapF {
  Inc,
  Dbl,
  Const7,
}
impl MapF {
  pub fn apply(&self, d: &D) -> D {
    match self {
      MapF::Inc => D::I(d.i() + 1),
      MapF::Dbl => D::I(d.i() * 2),
      MapF::Const7 => D::I(7),
    }
  }
}

#[derive(Clone, Copy, Debug, PartialEq)]
pub enum Pred {
  Lt(i64),
  Ge(i64),
  Eq(i64),
  Even,
}
impl Pred {
  pub fn test(&self, d: &D) -> bool {
    match self {
      Pred::Lt(k) => d.i() < *k,
      Pred::Ge(k) => d.i() >= *k,
      Pred::Eq(k) => d.i() == *k,
      Pred::Even => d.i() % 2 == 0,
    }
  }
}

/// retry_when predicates over the error payload
#[derive(Clone, Copy, Debug, PartialEq)]
pub enum EPred {
  Always,
  Never,
  PayloadLt(i64),
}
impl EPred {
  pub fn test(&self, k: i64) -> bool {
    match self {
      EPred::Always => true,
      EPred::Never => false,
      EPred::PayloadLt(x) => k < *x,
    }
  }
}

/// what flat_map's function returns for an item x
#[derive(Clone, Copy, Debug, PartialEq)]
pub enum Inner {
  /// just(x*10)
  Just10,
  Empty,
  /// x, x+100, complete
  Cold2,
  /// error(40+x)
  Err,
  /// the hot source number `base + (x mod n)` of the environment
  Hot { base: usize, n: usize },
}

/// what on_error_resume_next's function returns for an error e
#[derive(Clone, Copy, Debug, PartialEq)]
pub enum Resume {
  Just9,
  Empty,
  /// error(e+100)
  OtherErr,
  /// the same error again
  SameErr,
  /// 8, 9, complete
  Cold89,
}
