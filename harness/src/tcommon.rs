//! Shared pieces of engine T's scenarios: scenario wrapper, stamped
//! recorders, the driver that explores a list of scenarios and fills a Report.
use crate::json::{arr_s, obj, s, J};
use crate::report::{Finding, Report};
use another_rxrust::prelude::*;
use rxverif_rt::exec::{EndKind, ExecCfg, ExecEnd, ThreadEnd};
use rxverif_rt::explore::{explore, Body, Check, ExploreCfg, Scenario, Verdict, Violation};
use std::sync::{Arc, Mutex};
use std::time::Duration;

pub struct Scn {
  pub name: String,
  /// family used in finding keys (several scenarios may share one)
  pub family: String,
  pub make: Box<dyn Fn() -> (Body, Check) + Send + Sync>,
  pub cfg: ExecCfg,
  /// bound for (quick, thorough); None = skip in that tier
  pub bounds: (Option<u32>, Option<u32>),
  /// expect at least this many distinct conflict orders (vacuity guard)
  pub min_conflicts: usize,
}

impl Scenario for Scn {
  fn name(&self) -> String {
    self.name.clone()
  }
  fn instantiate(&self) -> (Body, Check) {
    (self.make)()
  }
  fn cfg(&self) -> ExecCfg {
    self.cfg.clone()
  }
}

pub fn scn<F>(name: &str, family: &str, q: Option<u32>, t: Option<u32>, make: F) -> Scn
where
  F: Fn() -> (Body, Check) + Send + Sync + 'static,
{
  Scn {
    name: name.to_string(),
    family: family.to_string(),
    make: Box::new(make),
    cfg: ExecCfg::default(),
    bounds: (q, t),
    min_conflicts: 2,
  }
}

// --------------------------------------------------------------- recorder

#[derive(Clone, Debug, PartialEq)]
pub enum EvK {
  Next(i64),
  Error(i64),
  Complete,
}

#[derive(Clone, Debug)]
pub struct Ev {
  pub k: EvK,
  pub tid: usize,
  pub enter: u64,
  pub exit: u64,
  pub vt: u64,
}

/// Payload of injected errors.
#[derive(Debug, Clone, PartialEq)]
pub struct Payload(pub i64);

pub fn err(k: i64) -> RxError {
  RxError::from_error(Payload(k))
}
pub fn err_code(e: &RxError) -> i64 {
  if let Some(p) = e.downcast_ref::<Payload>() {
    return p.0;
  }
  // timeout's error: io::ErrorKind::TimedOut
  match e.downcast_ref::<std::io::Error>() {
    Some(io) if io.kind() == std::io::ErrorKind::TimedOut => -110,
    _ => -999,
  }
}

#[derive(Clone, Default)]
pub struct Rec {
  pub log: Arc<Mutex<Vec<Ev>>>,
  /// a slow consumer: every item callback takes this long (virtual ms)
  pub item_delay_ms: u64,
}

impl Rec {
  pub fn new() -> Rec {
    Rec::default()
  }
  fn enter(&self, k: EvK) -> usize {
    let mut l = self.log.lock().unwrap();
    l.push(Ev { k, tid: rxverif_rt::tid(), enter: rxverif_rt::stamp(), exit: 0, vt: rxverif_rt::vtime() });
    l.len() - 1
  }
  fn exit(&self, i: usize) {
    let st = rxverif_rt::stamp();
    self.log.lock().unwrap()[i].exit = st;
  }
  /// callback body: mark entry, pass a scheduling point (so that a second
  /// callback running concurrently becomes observable), mark exit
  pub fn cb(&self, k: EvK) {
    let slow = self.item_delay_ms > 0 && matches!(k, EvK::Next(_));
    // the library has fetched this callback and is about to run it: a point of its own, so that what
    // other threads do between the fetch and the callback's first action is explored as well
    rxverif_rt::point();
    let i = self.enter(k);
    if slow {
      another_rxrust::vstd::thread::sleep(Duration::from_millis(self.item_delay_ms));
    } else {
      rxverif_rt::point();
    }
    self.exit(i);
  }
  pub fn slow(ms: u64) -> Rec {
    Rec { log: Default::default(), item_delay_ms: ms }
  }
  pub fn subscribe<T, F>(&self, o: &Observable<'static, T>, conv: F) -> Subscription<'static>
  where
    T: Clone + Send + Sync + 'static,
    F: Fn(T) -> i64 + Send + Sync + 'static,
  {
    let (a, b, c) = (self.clone(), self.clone(), self.clone());
    o.subscribe(
      move |x| a.cb(EvK::Next(conv(x))),
      move |e| b.cb(EvK::Error(err_code(&e))),
      move || c.cb(EvK::Complete),
    )
  }
  pub fn sub_i64(&self, o: &Observable<'static, i64>) -> Subscription<'static> {
    self.subscribe(o, |x| x)
  }
  pub fn events(&self) -> Vec<Ev> {
    self.log.lock().unwrap().clone()
  }
  pub fn items(&self) -> Vec<i64> {
    self.events().iter().filter_map(|e| if let EvK::Next(v) = e.k { Some(v) } else { None }).collect()
  }
  pub fn short(&self) -> String {
    self
      .events()
      .iter()
      .map(|e| match &e.k {
        EvK::Next(v) => format!("n{}", v),
        EvK::Error(k) => format!("E{}", k),
        EvK::Complete => "C".to_string(),
      })
      .collect::<Vec<_>>()
      .join(" ")
  }
  pub fn terminals(&self) -> Vec<Ev> {
    self.events().into_iter().filter(|e| !matches!(e.k, EvK::Next(_))).collect()
  }
  /// two callbacks overlapping in time?
  pub fn overlap(&self) -> Option<String> {
    let ev = self.events();
    for i in 0..ev.len() {
      for j in (i + 1)..ev.len() {
        let (a, b) = (&ev[i], &ev[j]);
        let ax = if a.exit == 0 { u64::MAX } else { a.exit };
        let bx = if b.exit == 0 { u64::MAX } else { b.exit };
        if a.enter < bx && b.enter < ax {
          return Some(format!("{:?}@t{} overlaps {:?}@t{}", a.k, a.tid, b.k, b.tid));
        }
      }
    }
    None
  }
}

/// A plain stamp log for producers ("about to deliver X").
#[derive(Clone, Default)]
pub struct Stamps {
  pub m: Arc<Mutex<Vec<(String, u64, u64)>>>,
}
impl Stamps {
  pub fn new() -> Stamps {
    Stamps::default()
  }
  pub fn mark(&self, what: &str) -> u64 {
    let st = rxverif_rt::stamp();
    self.m.lock().unwrap().push((what.to_string(), st, rxverif_rt::vtime()));
    st
  }
  pub fn get(&self, what: &str) -> Option<u64> {
    self.m.lock().unwrap().iter().find(|x| x.0 == what).map(|x| x.1)
  }
  pub fn all(&self) -> Vec<(String, u64, u64)> {
    self.m.lock().unwrap().clone()
  }
}

pub fn viol(class: &str, detail: String) -> Violation {
  Violation { class: class.to_string(), detail }
}

/// Violations every scenario checks: deadlock, self-deadlock, horizon,
/// library panics.
pub fn base_violations(e: &ExecEnd, allow_cond_blocked: &[usize]) -> Vec<Violation> {
  let mut v = vec![];
  match &e.kind {
    EndKind::SelfDeadlock { tid, what } => {
      v.push(viol("self-deadlock", format!("t{}: {} | {}", tid, what, e.blocked_desc.join(" ; "))))
    }
    EndKind::Horizon { what } => v.push(viol("livelock-or-horizon", what.clone())),
    _ => {}
  }
  if e.deadlocked() {
    v.push(viol("deadlock", e.blocked_desc.join(" ; ")));
  }
  for t in e.cond_blocked() {
    if !allow_cond_blocked.contains(&t) {
      v.push(viol("stuck-worker", format!("t{} parked in Condvar::wait at the end: {}", t, e.blocked_desc.join(" ; "))));
    }
  }
  for (t, m) in &e.panics {
    if !m.starts_with("MachineryError") {
      v.push(viol("panic", format!("t{} panicked: {}", t, m)));
    }
  }
  v
}

pub fn thread_summary(e: &ExecEnd) -> String {
  e.threads
    .iter()
    .enumerate()
    .map(|(i, t)| {
      format!(
        "t{}:{}",
        i,
        match &t.end {
          ThreadEnd::Finished => "done".to_string(),
          ThreadEnd::BlockedLock { .. } => "LOCK".to_string(),
          ThreadEnd::BlockedCond { .. } => "cond".to_string(),
          ThreadEnd::BlockedJoin(x) => format!("join{}", x),
          ThreadEnd::Sleeping => "sleep".to_string(),
          ThreadEnd::Runnable => "run".to_string(),
        }
      )
    })
    .collect::<Vec<_>>()
    .join(",")
}

pub fn tier_is_thorough(tier: &str) -> bool {
  tier == "thorough"
}

pub fn workers() -> usize {
  std::env::var("VERIF_WORKERS")
    .ok()
    .and_then(|x| x.parse().ok())
    .unwrap_or_else(|| std::thread::available_parallelism().map(|n| n.get()).unwrap_or(8))
}

/// Explore every scenario at its tier's bound and fold the results into `r`.
pub fn run_scenarios(r: &mut Report, scns: Vec<Scn>, tier: &str) {
  let thorough = tier_is_thorough(tier);
  let only = std::env::var("VERIF_ONLY").ok();
  let n_scn = scns.iter().filter(|s| if thorough { s.bounds.1 } else { s.bounds.0 }.is_some()).count().max(1);
  // wall budget per scenario
  let total_budget = std::env::var("VERIF_BUDGET_S")
    .ok()
    .and_then(|x| x.parse::<u64>().ok())
    .unwrap_or(if thorough { 1500 } else { 45 });
  let per = Duration::from_secs((total_budget / n_scn as u64).max(if thorough { 180 } else { 4 }));
  let mut per_scn = vec![];
  let mut total_outcomes = 0usize;
  for sc in &scns {
    // VERIF_BOUND_ADD deepens every scenario of the run by that many deviations (the thorough
    // commands of the cheap checks set it; the bound that was really completed goes into the evidence)
    let bound_add = std::env::var("VERIF_BOUND_ADD").ok().and_then(|x| x.parse::<u32>().ok()).unwrap_or(0);
    let bound = match if thorough { sc.bounds.1 } else { sc.bounds.0 } {
      Some(b) => b + bound_add,
      None => continue,
    };
    if let Some(o) = &only {
      if !sc.name.contains(o.as_str()) {
        continue;
      }
    }
    let cfg = ExploreCfg {
      bound,
      workers: workers(),
      max_execs: if thorough { 50_000_000 } else { 3_000_000 },
      wall_cap: per,
      max_violations: 16,
    };
    let st = explore(sc, &cfg);
    r.states += st.choice_points;
    r.transitions += st.steps;
    r.traces += st.execs;
    total_outcomes += st.distinct_outcomes;
    if st.capped.is_some() {
      r.exhaustive = false;
    }
    for m in &st.machinery {
      r.machinery.push(format!("{}: {}", sc.name, m));
    }
    if st.distinct_conflict_orders < sc.min_conflicts && st.machinery.is_empty() {
      r.vacuity.push(format!(
        "{}: only {} distinct conflict order(s) in {} executions",
        sc.name, st.distinct_conflict_orders, st.execs
      ));
    }
    for f in &st.violations {
      r.add_finding(Finding {
        key: format!("{}/{}", sc.name, f.class),
        detail: format!("[{}] {} (outcome: {}; {} occurrence(s); cheapest witness has {} deviation(s))", sc.name, f.detail, f.outcome, f.count, f.cost),
        replay: obj(vec![
          ("engine", s("T")),
          ("scenario", s(sc.name.clone())),
          ("class", s(f.class.clone())),
          ("choices", J::A(f.choices.iter().map(|c| J::I(*c as i64)).collect())),
          ("deviations", J::I(f.cost as i64)),
          ("end", s(f.end.clone())),
          ("outcome", s(f.outcome.clone())),
          ("trace", arr_s(&f.trace)),
        ]),
        count: f.count,
      });
    }
    per_scn.push(obj(vec![
      ("scenario", s(sc.name.clone())),
      ("bound_completed", if st.capped.is_some() { J::Null } else { J::I(bound as i64) }),
      ("bound_requested", J::I(bound as i64)),
      ("executions", J::I(st.execs as i64)),
      ("choice_points", J::I(st.choice_points as i64)),
      ("steps", J::I(st.steps as i64)),
      ("executions_per_deviation_count", J::A(st.per_cost.iter().map(|c| J::I(*c as i64)).collect())),
      ("distinct_outcomes", J::I(st.distinct_outcomes as i64)),
      ("distinct_conflict_orders", J::I(st.distinct_conflict_orders as i64)),
      ("max_choice_points_in_one_execution", J::I(st.max_points as i64)),
      ("capped", match &st.capped { Some(c) => s(c.clone()), None => J::Null }),
      ("violation_classes", arr_s(&st.violations.iter().map(|v| v.class.clone()).collect::<Vec<_>>())),
      ("wall_s", J::F(st.wall_s)),
    ]));
    if r.samples.len() < 8 {
      r.samples.push(obj(vec![
        ("scenario", s(sc.name.clone())),
        ("bound", J::I(bound as i64)),
        ("outcomes_seen", arr_s(&st.sample_outcomes)),
      ]));
    }
    println!(
      "  {:<44} c={} execs={:>8} points={:>9} outcomes={:>4} conflicts={:>6} viol={} {}{:.1}s",
      sc.name,
      bound,
      st.execs,
      st.choice_points,
      st.distinct_outcomes,
      st.distinct_conflict_orders,
      st.violations.len(),
      st.capped.as_ref().map(|c| format!("CAPPED({}) ", c)).unwrap_or_default(),
      st.wall_s
    );
  }
  r.extra.push(("scenarios".to_string(), J::A(per_scn)));
  r.extra.push(("distinct_outcomes_total".to_string(), J::I(total_outcomes as i64)));
  r.extra.push((
    "explanation".to_string(),
    s("states = choice points of the schedule trees visited; transitions = scheduling steps executed; every execution runs the real (instrumented) crate under the controlled scheduler to completion, so traces_validated_against_impl = executions"),
  ));
}

#[allow(dead_code)]
pub fn unused(_: &dyn Fn() -> Verdict) {}

// ------------------------------------------------------------ hot sources

/// A manual hot source built with the public `Observable::create`: it stores
/// every observer it is handed; the driver pushes events.
pub struct Hot<T: Clone + Send + Sync + 'static> {
  pub obs: Arc<Mutex<Vec<Observer<'static, T>>>>,
  pub subscribed: Arc<Mutex<usize>>,
}
impl<T: Clone + Send + Sync + 'static> Clone for Hot<T> {
  fn clone(&self) -> Self {
    Hot { obs: self.obs.clone(), subscribed: self.subscribed.clone() }
  }
}
impl<T: Clone + Send + Sync + 'static> Hot<T> {
  pub fn new() -> Hot<T> {
    Hot { obs: Arc::new(Mutex::new(vec![])), subscribed: Arc::new(Mutex::new(0)) }
  }
  pub fn observable(&self) -> Observable<'static, T> {
    let (obs, n) = (self.obs.clone(), self.subscribed.clone());
    Observable::create(move |s| {
      *n.lock().unwrap() += 1;
      obs.lock().unwrap().push(s);
    })
  }
  fn snapshot(&self) -> Vec<Observer<'static, T>> {
    self.obs.lock().unwrap().clone()
  }
  pub fn next(&self, v: T) {
    for o in self.snapshot() {
      o.next(v.clone());
    }
  }
  pub fn error(&self, e: RxError) {
    for o in self.snapshot() {
      o.error(e.clone());
    }
  }
  pub fn complete(&self) {
    for o in self.snapshot() {
      o.complete();
    }
  }
  /// does any handed-out observer still report is_subscribed()?
  pub fn any_subscribed(&self) -> bool {
    self.snapshot().iter().any(|o| o.is_subscribed())
  }
  pub fn emit(&self, e: &Emit<T>) {
    match e {
      Emit::N(v) => self.next(v.clone()),
      Emit::E(k) => self.error(err(*k)),
      Emit::C => self.complete(),
    }
  }
}

#[derive(Clone, Debug)]
pub enum Emit<T> {
  N(T),
  E(i64),
  C,
}
pub fn emit_label<T: std::fmt::Debug>(e: &Emit<T>) -> String {
  match e {
    Emit::N(v) => format!("n{:?}", v),
    Emit::E(k) => format!("E{}", k),
    Emit::C => "C".to_string(),
  }
}

#[derive(Clone, Copy, Debug, PartialEq)]
pub enum SubjKind {
  Plain,
  Behavior,
  Replay,
  Async,
}
#[derive(Clone)]
pub enum AnySubject {
  Plain(subjects::Subject<'static, i64>),
  Behavior(subjects::BehaviorSubject<'static, i64>),
  Replay(subjects::ReplaySubject<'static, i64>),
  Async(subjects::AsyncSubject<'static, i64>),
}
impl AnySubject {
  pub fn new(k: SubjKind) -> AnySubject {
    match k {
      SubjKind::Plain => AnySubject::Plain(subjects::Subject::new()),
      SubjKind::Behavior => AnySubject::Behavior(subjects::BehaviorSubject::new(0)),
      SubjKind::Replay => AnySubject::Replay(subjects::ReplaySubject::new()),
      SubjKind::Async => AnySubject::Async(subjects::AsyncSubject::new()),
    }
  }
  pub fn observable(&self) -> Observable<'static, i64> {
    match self {
      AnySubject::Plain(s) => s.observable(),
      AnySubject::Behavior(s) => s.observable(),
      AnySubject::Replay(s) => s.observable(),
      AnySubject::Async(s) => s.observable(),
    }
  }
  pub fn next(&self, v: i64) {
    match self {
      AnySubject::Plain(s) => s.next(v),
      AnySubject::Behavior(s) => s.next(v),
      AnySubject::Replay(s) => s.next(v),
      AnySubject::Async(s) => s.next(v),
    }
  }
  pub fn error(&self, e: RxError) {
    match self {
      AnySubject::Plain(s) => s.error(e),
      AnySubject::Behavior(s) => s.error(e),
      AnySubject::Replay(s) => s.error(e),
      AnySubject::Async(s) => s.error(e),
    }
  }
  pub fn complete(&self) {
    match self {
      AnySubject::Plain(s) => s.complete(),
      AnySubject::Behavior(s) => s.complete(),
      AnySubject::Replay(s) => s.complete(),
      AnySubject::Async(s) => s.complete(),
    }
  }
  pub fn emit(&self, e: &Emit<i64>) {
    match e {
      Emit::N(v) => self.next(*v),
      Emit::E(k) => self.error(err(*k)),
      Emit::C => self.complete(),
    }
  }
  pub fn observer_count(&self) -> usize {
    match self {
      AnySubject::Plain(s) => s.verif_observer_count(),
      AnySubject::Behavior(s) => s.verif_observer_count(),
      AnySubject::Replay(s) => s.verif_observer_count(),
      AnySubject::Async(s) => s.verif_observer_count(),
    }
  }
}

/// Marks with thread ids: "thread T is about to call into the library for X".
#[derive(Clone, Default)]
pub struct Causes {
  pub m: Arc<Mutex<Vec<(usize, u64, String)>>>,
}
impl Causes {
  pub fn new() -> Causes {
    Causes::default()
  }
  pub fn mark(&self, what: &str) {
    let st = rxverif_rt::stamp();
    self.m.lock().unwrap().push((rxverif_rt::tid(), st, what.to_string()));
  }
  /// the library call of thread `tid` that was in progress at stamp `at`
  pub fn cause_of(&self, tid: usize, at: u64) -> Option<(u64, String)> {
    self
      .m
      .lock()
      .unwrap()
      .iter()
      .filter(|c| c.0 == tid && c.1 < at)
      .max_by_key(|c| c.1)
      .map(|c| (c.1, c.2.clone()))
  }
}

/// C19 / C01 oracle on a recorder: at most one terminal; no callback caused by
/// a library call that started after the terminal callback returned.
pub fn contract_violations(rec: &Rec, causes: &Causes) -> Vec<Violation> {
  let mut v = vec![];
  let ev = rec.events();
  let terms: Vec<&Ev> = ev.iter().filter(|e| !matches!(e.k, EvK::Next(_))).collect();
  if terms.len() > 1 {
    v.push(viol("two-terminals", format!("subscriber saw {}", rec.short())));
  }
  if let Some(t) = terms.first() {
    if t.exit != 0 {
      for e in &ev {
        if e.enter > t.exit {
          if let Some((c, what)) = causes.cause_of(e.tid, e.enter) {
            if c > t.exit {
              v.push(viol(
                "event-after-terminal",
                format!("{:?} delivered (call '{}' started at {}) after terminal {:?} returned at {}; saw {}", e.k, what, c, t.k, t.exit, rec.short()),
              ));
            }
          }
        }
      }
    }
  }
  v
}


/// Two hash seeds under which a `HashMap<i32,_>` holding the keys 1 and 2
/// iterates them in opposite orders (the order in which a Subject notifies
/// its observers and `finalize` tears down upstreams depends on it).
pub fn two_hash_seeds() -> (u64, u64) {
  let order = |seed: u64| -> Vec<i32> {
    rxverif_rt::exec::set_monitor_hash_seed(seed);
    let mut m: rxverif_rt::collections::HashMap<i32, ()> = rxverif_rt::collections::HashMap::new();
    m.insert(1, ());
    m.insert(2, ());
    let v: Vec<i32> = m.iter().map(|x| *x.0).collect();
    rxverif_rt::exec::set_monitor_hash_seed(0);
    v
  };
  let o0 = order(0);
  for s in 1..64 {
    if order(s) != o0 {
      return (0, s);
    }
  }
  (0, 0)
}
pub fn with_seed(mut s: Scn, seed: u64) -> Scn {
  s.cfg.hash_seed = seed;
  if seed != 0 {
    s.name = format!("{} #h{}", s.name, seed);
  }
  s
}

// -------------------------------------------------- threaded cold sources

pub fn ms(n: u64) -> Duration {
  Duration::from_millis(n)
}
pub const MS: u64 = 1_000_000;

/// A cold source whose every subscription starts a producer thread that plays
/// `script` (politely: it checks is_subscribed() before each emission, as the
/// crate's own threaded test sources do). `gaps` = virtual-time sleep before
/// each event (ms; empty = none). Every would-be emission is marked in `causes`.
pub fn threaded_source(label: &'static str, script: Vec<Emit<i64>>, gaps: Vec<u64>, causes: Causes) -> Observable<'static, i64> {
  threaded_source_opt(label, script, gaps, causes, true)
}
/// the same, but a *rude* producer that never looks at is_subscribed()
pub fn rude_threaded_source(label: &'static str, script: Vec<Emit<i64>>, causes: Causes) -> Observable<'static, i64> {
  threaded_source_opt(label, script, vec![], causes, false)
}
pub fn threaded_source_opt(label: &'static str, script: Vec<Emit<i64>>, gaps: Vec<u64>, causes: Causes, polite: bool) -> Observable<'static, i64> {
  Observable::create(move |s: Observer<'static, i64>| {
    let (script, gaps, causes) = (script.clone(), gaps.clone(), causes.clone());
    another_rxrust::vstd::thread::spawn(move || {
      for (i, e) in script.iter().enumerate() {
        if let Some(g) = gaps.get(i) {
          if *g > 0 {
            another_rxrust::vstd::thread::sleep(ms(*g));
          }
        }
        if polite && !s.is_subscribed() {
          causes.mark(&format!("{}:stopped", label));
          break;
        }
        causes.mark(&format!("{}:{}", label, emit_label(e)));
        match e {
          Emit::N(v) => s.next(*v),
          Emit::E(k) => s.error(err(*k)),
          Emit::C => s.complete(),
        }
      }
    });
  })
}

/// A synchronous cold source (plays inside subscribe), polite.
pub fn sync_source(label: &'static str, script: Vec<Emit<i64>>, causes: Causes) -> Observable<'static, i64> {
  Observable::create(move |s: Observer<'static, i64>| {
    for e in script.iter() {
      if !s.is_subscribed() {
        break;
      }
      causes.mark(&format!("{}:{}", label, emit_label(e)));
      match e {
        Emit::N(v) => s.next(*v),
        Emit::E(k) => s.error(err(*k)),
        Emit::C => s.complete(),
      }
    }
  })
}

pub fn script_label(s: &[Emit<i64>]) -> String {
  let l: Vec<String> = s.iter().map(emit_label).collect();
  if l.len() > 8 {
    // a burst: first, last item and the tail
    let items = s.iter().filter(|x| matches!(x, Emit::N(_))).count();
    let mut out = vec![l[0].clone(), "..".to_string(), l[items - 1].clone()];
    out.extend(l[items..].iter().cloned());
    return out.join(",");
  }
  l.join(",")
}

/// live controlled threads at the end (anything not finished)
pub fn unfinished_threads(e: &ExecEnd) -> Vec<usize> {
  e.threads.iter().enumerate().filter(|(_, t)| t.end != ThreadEnd::Finished).map(|(i, _)| i).collect()
}
