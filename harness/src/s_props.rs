//! Engine S: catalogues, enumeration of pipelines × scripts × histories, and
//! the per-property oracles for C01–C06, C14, C17.
use crate::json::{obj, s, J};
use crate::report::{load_known, Finding, Report};
use crate::s_ops::*;
use crate::s_ref::SrcKind;
use crate::s_run::*;
use crate::s_val::*;
use std::collections::{BTreeMap, HashSet};
use std::sync::atomic::{AtomicBool, AtomicUsize, Ordering};
use std::sync::{Arc, Mutex};

// --------------------------------------------------------------- catalogue

pub fn single_ops(thorough: bool) -> Vec<Op> {
  use Op::*;
  let mut v = vec![
    Map(MapF::Inc),
    Map(MapF::Dbl),
    Map(MapF::Const7),
    Filter(Pred::Lt(2)),
    Filter(Pred::Even),
    Filter(Pred::Eq(2)),
    Tap,
    MapToAny,
    IgnoreElements,
    DistinctUntilChanged,
    Scan,
    Skip(0),
    Skip(1),
    Skip(2),
    SkipLast(0),
    SkipLast(1),
    SkipLast(2),
    SkipWhile(Pred::Lt(2)),
    SkipWhile(Pred::Even),
    SkipWhile(Pred::Ge(2)),
    StartWith(vec![]),
    StartWith(vec![8]),
    StartWith(vec![8, 9]),
    Take(0),
    Take(1),
    Take(2),
    Take(3),
    First,
    TakeWhile(Pred::Lt(2)),
    TakeWhile(Pred::Even),
    ElementAt(1),
    ElementAt(2),
    ElementAt(3),
    Contains(2),
    All(Pred::Lt(3)),
    TakeLast(0),
    TakeLast(1),
    TakeLast(2),
    Last,
    Reduce,
    Sum,
    Min,
    Max,
    Count,
    SumAndCount,
    DefaultIfEmpty(5),
    Buffer(1),
    Buffer(2),
    Buffer(3),
    Materialize,
    MatDemat,
    DematInBand(2, 3),
    DematInBand(1, 9),
    DematInBand(9, 2),
    WindowFlat(1),
    WindowFlat(2),
    WindowFlat(3),
    GroupByParityFlat,
    GroupByParityFlatResume,
    Retry(1),
    Retry(2),
    RetryWhen(EPred::Never),
    RetryWhen(EPred::PayloadLt(3)),
    OnErrorResumeNext(Resume::Just9),
    OnErrorResumeNext(Resume::Empty),
    OnErrorResumeNext(Resume::OtherErr),
    OnErrorResumeNext(Resume::SameErr),
    OnErrorResumeNext(Resume::Cold89),
    ObserveOnDefault,
    SubscribeOnDefault,
    Defer,
    Timestamp,
    TimeInterval,
  ];
  if thorough {
    v.extend(vec![
      Skip(3),
      Skip(4),
      Skip(5),
      SkipLast(3),
      Take(4),
      Take(5),
      TakeLast(3),
      ElementAt(4),
      ElementAt(5),
      Buffer(4),
      WindowFlat(4),
      Filter(Pred::Ge(2)),
      TakeWhile(Pred::Ge(2)),
      All(Pred::Even),
      Contains(1),
      Retry(3),
      Retry(4),
    ]);
  }
  v
}

/// operators that deliver inner observables: last position only
pub fn direct_ops(thorough: bool) -> Vec<Op> {
  let mut v = vec![Op::Window(1), Op::Window(2), Op::Window(3), Op::GroupByParity, Op::WindowDeferred(2), Op::GroupByParityDeferred];
  if thorough {
    v.push(Op::Window(4));
  }
  v
}

/// connectables used as ordinary pipeline stages (one subscriber only: they share by design).
/// For one subscriber ref_count()/replay() are the identity, with two exceptions that are C13's
/// business and are kept out: an operator above that re-subscribes (retry: the new attempt meets a
/// connectable whose source has terminated) and, for replay(), anything below that emits
/// synchronously at subscribe time (C13's known finding: the connecting subscriber gets it twice).
pub fn connectable_pipelines(hot_only: bool) -> Vec<Node> {
  let above: Vec<Op> = reduced_ops().into_iter().filter(|o| !matches!(o, Op::Retry(_) | Op::RetryWhen(_))).collect();
  let red = reduced_ops();
  if hot_only {
    let mut v = depth1(&[Op::ReplayConn]);
    v.extend(depth2(&[Op::ReplayConn], &above));
    v
  } else {
    let mut v = depth1(&[Op::RefCount]);
    v.extend(depth2(&[Op::RefCount], &above));
    v.extend(depth2(&red, &[Op::RefCount]));
    v
  }
}

/// one instance per operator (for deeper nestings)
pub fn reduced_ops() -> Vec<Op> {
  use Op::*;
  vec![
    Map(MapF::Inc),
    Filter(Pred::Even),
    Tap,
    DistinctUntilChanged,
    Scan,
    Skip(1),
    SkipLast(1),
    SkipWhile(Pred::Lt(2)),
    StartWith(vec![8]),
    Take(2),
    First,
    TakeWhile(Pred::Lt(2)),
    ElementAt(2),
    Contains(2),
    All(Pred::Lt(3)),
    TakeLast(1),
    Last,
    Reduce,
    Count,
    DefaultIfEmpty(5),
    Buffer(2),
    MatDemat,
    WindowFlat(2),
    GroupByParityFlat,
    Retry(2),
    OnErrorResumeNext(Resume::Just9),
  ]
}

pub fn multi_ops() -> Vec<Op> {
  use Op::*;
  vec![Merge, Concat, Zip, CombineLatest, Amb, TakeUntil, SkipUntil, Sample, SequenceEqual]
}
/// plus the operators that have no functional reference (contract / unsubscribe / teardown / release only)
pub fn multi_ops_all() -> Vec<Op> {
  let mut v = multi_ops();
  v.push(Op::SwitchOnNext);
  v
}

// ------------------------------------------------------------------ worlds

/// sources + driver actions (everything of a case except the pipeline)
#[derive(Clone, Debug)]
pub struct World {
  pub srcs: Vec<SrcKind>,
  pub acts: Vec<Act>,
}

pub fn strings(alphabet: &[Ev], max_len: usize) -> Vec<Vec<Ev>> {
  let mut out: Vec<Vec<Ev>> = vec![vec![]];
  let mut layer: Vec<Vec<Ev>> = vec![vec![]];
  for _ in 0..max_len {
    let mut next = vec![];
    for s in &layer {
      for a in alphabet {
        let mut t = s.clone();
        t.push(a.clone());
        next.push(t);
      }
    }
    out.extend(next.iter().cloned());
    layer = next;
  }
  out
}

#[derive(Clone, Copy, Debug, PartialEq)]
pub enum Ending {
  Complete,
  Error,
  Silent,
}

/// well-formed scripts: items then an ending
pub fn wf_scripts(values: &[i64], max_items: usize, endings: &[Ending]) -> Vec<Vec<Ev>> {
  let alpha: Vec<Ev> = values.iter().map(|v| Ev::n(*v)).collect();
  let mut out = vec![];
  for items in strings(&alpha, max_items) {
    for e in endings {
      let mut s = items.clone();
      match e {
        Ending::Complete => s.push(Ev::C),
        Ending::Error => s.push(Ev::E(5)),
        Ending::Silent => {}
      }
      out.push(s);
    }
  }
  out
}

/// all interleavings of the given per-source scripts as Emit actions
pub fn interleavings(scripts: &[Vec<Ev>]) -> Vec<Vec<Act>> {
  fn rec(scripts: &[Vec<Ev>], pos: &mut Vec<usize>, cur: &mut Vec<Act>, out: &mut Vec<Vec<Act>>) {
    let mut any = false;
    for i in 0..scripts.len() {
      if pos[i] < scripts[i].len() {
        any = true;
        cur.push(Act::Emit(i, scripts[i][pos[i]].clone()));
        pos[i] += 1;
        rec(scripts, pos, cur, out);
        pos[i] -= 1;
        cur.pop();
      }
    }
    if !any {
      out.push(cur.clone());
    }
  }
  let mut out = vec![];
  rec(scripts, &mut vec![0; scripts.len()], &mut vec![], &mut out);
  out
}

pub fn cold_world(script: Vec<Ev>, polite: bool) -> World {
  World { srcs: vec![SrcKind::Cold { scripts: vec![script], polite }], acts: vec![Act::Sub(0)] }
}
pub fn hot_world(script: &[Ev]) -> World {
  let mut acts = vec![Act::Sub(0)];
  acts.extend(script.iter().map(|e| Act::Emit(0, e.clone())));
  World { srcs: vec![SrcKind::Hot], acts }
}

// --------------------------------------------------------------- pipelines

pub fn depth1(ops: &[Op]) -> Vec<Node> {
  ops.iter().map(|o| Node::op(o.clone(), Node::Src(0))).collect()
}
pub fn depth2(inner: &[Op], outer: &[Op]) -> Vec<Node> {
  let mut v = vec![];
  for a in inner {
    for b in outer {
      v.push(Node::op(b.clone(), Node::op(a.clone(), Node::Src(0))));
    }
  }
  v
}
pub fn depth3(ops: &[Op]) -> Vec<Node> {
  let mut v = vec![];
  for a in ops {
    for b in ops {
      for c in ops {
        v.push(Node::op(c.clone(), Node::op(b.clone(), Node::op(a.clone(), Node::Src(0)))));
      }
    }
  }
  v
}

// ------------------------------------------------------------------ engine

#[derive(Clone, Copy, Debug, PartialEq)]
pub enum Oracle {
  /// C02/C03/C04: every step's events equal the reference's (+ error payload identity, tap log)
  Functional,
  /// C01: next* (error|complete)? then nothing; is_subscribed false after a terminal
  Contract,
  /// C05: nothing after unsubscribe returned; idempotent; is_subscribed truth table
  Unsub,
  /// C06: a source the reference no longer needs reads is_subscribed()==false
  Teardown,
  /// C17: no token has an owner after the end
  Release,
  /// C14: like Functional, but a deviation that is exactly an operator's known
  /// functional defect (C03's business) is not an independence violation
  Independence,
  /// C03, `a.switch_on_next(b)` (whose full function no statement fixes): once an item of `b` has been
  /// delivered nothing of `a` is - the operator has *switched* -, every delivered item is one an input
  /// emitted, and the items of either input keep their order
  Switch,
}

#[derive(Default)]
pub struct Stats {
  pub runs: u64,
  pub steps: u64,
  pub nontrivial: u64,
  pub tainted: u64,
  pub permissive: u64,
  pub skipped: u64,
  pub findings: BTreeMap<String, (String, String, u64)>, // key -> (detail, case, count)
  pub samples: Vec<String>,
  pub self_deadlocks: u64,
  pub per_op_runs: BTreeMap<String, u64>,
  pub per_op_nontrivial: BTreeMap<String, u64>,
}
impl Stats {
  fn add_finding(&mut self, key: String, detail: String, case: String) {
    let e = self.findings.entry(key).or_insert((detail, case, 0));
    e.2 += 1;
  }
  fn merge(&mut self, o: Stats) {
    self.runs += o.runs;
    self.steps += o.steps;
    self.nontrivial += o.nontrivial;
    self.tainted += o.tainted;
    self.permissive += o.permissive;
    self.skipped += o.skipped;
    self.self_deadlocks += o.self_deadlocks;
    for (k, v) in o.findings {
      let e = self.findings.entry(k).or_insert((v.0, v.1, 0));
      e.2 += v.2;
    }
    for (k, v) in o.per_op_runs {
      *self.per_op_runs.entry(k).or_default() += v;
    }
    for (k, v) in o.per_op_nontrivial {
      *self.per_op_nontrivial.entry(k).or_default() += v;
    }
    if self.samples.len() < 6 {
      self.samples.extend(o.samples.into_iter().take(2));
    }
  }
}

pub struct Family {
  pub name: String,
  pub pipelines: Vec<Node>,
  pub worlds: Arc<Vec<World>>,
  pub oracles: Vec<Oracle>,
}

/// operator names whose own known (unfixed) findings taint deeper pipelines
fn tainted_ops(_prop: &str) -> HashSet<String> {
  // no pipeline is excluded any more: operators with a known defect are
  // compared against their "as implemented" reference (s_ops::as_implemented)
  let _ = load_known;
  HashSet::new()
}

fn locus(p: &Node) -> String {
  let ops = p.ops();
  if ops.is_empty() {
    return "direct-subscriber".to_string();
  }
  if ops.len() == 1 {
    ops[0].name().to_string()
  } else {
    ops.iter().map(|o| o.name()).collect::<Vec<_>>().join("+")
  }
}

/// the most specific name of *what fails* for known-finding matching
fn refine(p: &Node, class: &str, case: &Case) -> String {
  let _ = case;
  format!("{}/{}", locus(p), class)
}

pub fn eval_case(prop: &str, case: &Case, oracles: &[Oracle], st: &mut Stats, depth: usize, tainted: &HashSet<String>) {
  eval_case_x(prop, case, oracles, st, depth, tainted, drops_value_early(case, oracles));
  // pipelines through ref_count()/replay(): once more with the caller dropping the Observable value right
  // after the last subscribe - the subscriptions alone have to keep the sharing machinery alive
  let shares = case.pipeline.ops().iter().any(|o| matches!(o, Op::RefCount | Op::ReplayConn));
  let nests = case.acts.iter().any(|a| matches!(a, Act::Nest { .. } | Act::NestFromTap { .. }));
  if shares && !nests && !oracles.contains(&Oracle::Release) {
    eval_case_x(prop, case, oracles, st, depth, tainted, true);
  }
}

/// every other case (by a parity of its shape, so that each pipeline meets both modes across its
/// worlds) drops the Observable value right after the last subscribe, as callers usually do: nothing
/// a live subscription needs may hang on the value it was made from
fn drops_value_early(case: &Case, oracles: &[Oracle]) -> bool {
  let nests = case.acts.iter().any(|a| matches!(a, Act::Nest { .. } | Act::NestFromTap { .. }));
  let shares = case.pipeline.ops().iter().any(|o| matches!(o, Op::RefCount | Op::ReplayConn));
  !nests && !shares && !oracles.contains(&Oracle::Release) && (case.acts.len() + case.pipeline.ops().len()) % 2 == 1
}

fn eval_case_x(prop: &str, case: &Case, oracles: &[Oracle], st: &mut Stats, depth: usize, tainted: &HashSet<String>, drop_early: bool) {
  let opts = RunOpts { check_tokens: oracles.contains(&Oracle::Release), drop_pipeline_early: drop_early };
  let shown = if drop_early { format!("{} ; [the Observable value is dropped right after the last subscribe]", case.show()) } else { case.show() };
  let real = run_real(case, &opts);
  st.runs += 1;
  st.steps += case.acts.len() as u64;
  let opname = case.pipeline.top_op().map(|o| o.name()).unwrap_or("source").to_string();
  *st.per_op_runs.entry(opname.clone()).or_default() += 1;
  let p = &case.pipeline;
  let is_tainted = depth >= 2 && p.ops().iter().any(|o| tainted.contains(o.name()));
  // self-deadlocks and panics belong to C07 / are reported wherever seen
  if let Some(sd) = &real.self_deadlock {
    st.self_deadlocks += 1;
    if prop == "C07" {
      st.add_finding(format!("{}/self-deadlock", locus(p)), sd.clone(), shown.clone());
    }
    return;
  }
  if let Some(ll) = &real.livelock {
    // a producer loop that spins on a subscription that has ended (C06 / C07); reported wherever it is seen
    st.add_finding(format!("{}/livelock-producer-keeps-spinning", locus(p)), ll.clone(), shown.clone());
    return;
  }
  if let Some(pn) = &real.panic {
    st.add_finding(format!("{}/panic", locus(p)), pn.clone(), shown.clone());
    return;
  }
  let needs_ref = oracles.iter().any(|o| matches!(o, Oracle::Functional | Oracle::Teardown | Oracle::Independence));
  let refr = if needs_ref { Some(run_ref(case)) } else { None };
  if let Some(r) = &refr {
    // non-trivial: the pipeline changed the stream or ended it early
    let src_events: usize = case.acts.iter().filter(|a| matches!(a, Act::Emit(..))).count()
      + case.srcs.iter().map(|s| if let SrcKind::Cold { scripts, .. } = s { scripts[0].len() } else { 0 }).sum::<usize>();
    if r.events.len() != src_events || r.events.iter().any(|e| e.rec != rec_id(0)) {
      st.nontrivial += 1;
      *st.per_op_nontrivial.entry(opname.clone()).or_default() += 1;
    }
  }
  for o in oracles {
    match o {
      Oracle::Functional | Oracle::Independence => {
        if !p.ops().iter().all(|o| o.has_functional_reference()) {
          st.permissive += 1;
          continue;
        }
        if is_tainted {
          st.tainted += 1;
          continue;
        }
        let r = refr.as_ref().unwrap();
        if let Some(m) = compare_events(&real, r, case.acts.len()) {
          let (alt, names) = as_implemented(p);
          let mut explained = false;
          if !names.is_empty() {
            let alt_case = Case { srcs: case.srcs.clone(), pipeline: alt, acts: case.acts.clone() };
            let ar = run_ref(&alt_case);
            if compare_events(&real, &ar, case.acts.len()).is_none() {
              explained = true;
              for n in names.iter().filter(|_| *o == Oracle::Functional) {
                st.add_finding(n.to_string(), format!("(the operator behaves exactly as it did before its repair - see known_findings.json) {}", m.detail), shown.clone());
              }
            }
          }
          if !explained {
            st.add_finding(refine(p, &m.class, case), m.detail, shown.clone());
          }
        } else {
          // the error must carry the very same payload object
          for e in &real.events {
            if let Ev::E(k) = e.ev {
              let injected = real.err_addrs.iter().any(|(kk, a)| *kk == k && *a == e.err_addr);
              let synthesized = !real.err_addrs.iter().any(|(kk, _)| *kk == k);
              if !injected && !synthesized {
                st.add_finding(format!("{}/error-payload-not-identical", locus(p)), format!("error {} delivered with a different payload object", k), shown.clone());
              }
            }
          }
          if real.tap_log != r.tap_log {
            st.add_finding(format!("{}/tap-side-effects", locus(p)), format!("tap saw [{}], reference [{}]", show_evs(&real.tap_log), show_evs(&r.tap_log)), shown.clone());
          }
        }
      }
      Oracle::Switch => {
        // origin of a value in these worlds: first input 1..8, second input 11.., the fed value 9 belongs to the input it is fed to
        let fed_src = case.acts.iter().find_map(|a| if let Act::Feed { src, .. } = a { Some(*src) } else { None }).unwrap_or(0);
        let origin = |e: &Ev| -> Option<usize> {
          match e {
            Ev::N(D::I(9)) => Some(fed_src),
            Ev::N(D::I(k)) => Some(if *k >= 10 { 1 } else { 0 }),
            _ => None,
          }
        };
        let out = real.all_of(rec_id(0));
        let mut switched = false;
        for e in out.iter() {
          match origin(e) {
            Some(1) => switched = true,
            Some(0) if switched => {
              st.add_finding(
                format!("{}/item-of-the-first-input-after-the-switch", locus(p)),
                format!("{} of the first input delivered after an item of the second: {} | real: {}", e.show(), show_evs(&out), real.show()),
                shown.clone(),
              );
              break;
            }
            _ => {}
          }
        }
      }
      Oracle::Contract => {
        for rec in real.recs() {
          let evs: Vec<&RecEv> = real.events.iter().filter(|e| e.rec == rec).collect();
          if let Some(ti) = evs.iter().position(|e| e.ev.is_terminal()) {
            if ti + 1 < evs.len() {
              let after = &evs[ti + 1];
              let class = if after.ev.is_terminal() { "second-terminal" } else { "item-after-terminal" };
              st.add_finding(
                format!("{}/{}", locus(p), class),
                format!("recorder #{} saw {}", rec, show_evs(&real.all_of(rec))),
                shown.clone(),
              );
            }
            if rec % 100 == 0 {
              let root = (rec / 100 - 1) as usize;
              let tstep = evs[ti].step;
              for (step, live) in real.root_live.iter().enumerate() {
                if step >= tstep && live.get(root).cloned().flatten() == Some(true) {
                  st.add_finding(
                    format!("{}/is_subscribed-true-after-terminal", locus(p)),
                    format!("Subscription::is_subscribed() is true after step {} although the terminal arrived in step {}", step, tstep),
                    shown.clone(),
                  );
                  break;
                }
              }
            }
          }
        }
      }
      Oracle::Unsub => {
        for (ai, a) in case.acts.iter().enumerate() {
          if let Act::Unsub(root) | Act::UsingDrop(root) | Act::UsingDropUnwinding(root) | Act::UnsubGuarded(root) = a {
            let base = rec_id(*root);
            if let Some(e) = real.events.iter().find(|e| e.step > ai && e.rec >= base && e.rec < base + 100) {
              st.add_finding(
                format!("{}/delivery-after-unsubscribe", locus(p)),
                format!("{} delivered in step {} after unsubscribe returned in step {}", e.ev.show(), e.step, ai),
                shown.clone(),
              );
            }
            // the unsubscribing step itself must not deliver anything either
            if let Some(e) = real.events.iter().find(|e| e.step == ai && e.rec >= base && e.rec < base + 100) {
              st.add_finding(format!("{}/callback-during-unsubscribe", locus(p)), format!("{} delivered by the unsubscribe call itself", e.ev.show()), shown.clone());
            }
          }
        }
        // unsubscribe called from one of the subscription's own callbacks: nothing may be
        // delivered once that call has returned - not even the rest of the emission it interrupted
        for (root, idx) in &real.self_unsub_marks {
          let base = rec_id(*root);
          // (the subscriber's own callbacks only: an inner observable of window/group_by that it
          // subscribed separately is a subscription of its own and still gets the item in flight)
          if let Some(e) = real.events.iter().skip(*idx).find(|e| e.rec == base) {
            st.add_finding(
              format!("{}/delivery-after-unsubscribe-from-a-callback", locus(p)),
              format!("{} delivered (step {}) after the unsubscribe called from the subscriber's own callback had returned | real: {}", e.ev.show(), e.step, real.show()),
              shown.clone(),
            );
          }
        }
        // truth table of Subscription::is_subscribed, from what the subscriber itself saw
        let n_roots = real.root_live.last().map(|l| l.len()).unwrap_or(0);
        for root in 0..n_roots {
          let mut ended = false;
          for (step, a) in case.acts.iter().enumerate() {
            if *a == Act::Unsub(root) || *a == Act::UsingDrop(root) || *a == Act::UsingDropUnwinding(root) || *a == Act::UnsubGuarded(root) {
              ended = true;
            }
            if real.events.iter().any(|e| e.step == step && e.rec == rec_id(root) && e.ev.is_terminal()) {
              ended = true;
            }
            if real.self_unsub_marks.iter().any(|(r, idx)| *r == root && *idx > 0 && real.events.get(*idx - 1).map_or(false, |e| e.step == step)) {
              ended = true;
            }
            if let Some(Some(live)) = real.root_live.get(step).map(|l| l[root]) {
              if live == ended {
                st.add_finding(
                  format!("{}/is_subscribed-{}", locus(p), if live { "true-after-end" } else { "false-while-live" }),
                  format!("after step {} is_subscribed()={} but the subscription {}", step, live, if ended { "has ended" } else { "is live" }),
                  shown.clone(),
                );
                break;
              }
            }
          }
        }
        // the same truth table for the subscriptions to inner observables (window / group_by): such a
        // subscription ends when it has seen a terminal or was unsubscribed itself - not because the
        // outer one was unsubscribed, nor because the operator let go of the inner subject
        {
          let mut flagged: Vec<u32> = vec![];
          for (step, lives) in real.inner_live.iter().enumerate() {
            for (irec, live) in lives {
              if flagged.contains(irec) {
                continue;
              }
              let saw_terminal = real.events.iter().any(|e| e.rec == *irec && e.step <= step && e.ev.is_terminal());
              // (an unsubscribe that is enumerated before the inner observable exists is a no-op)
              let unsubscribed = case.acts.iter().enumerate().take(step + 1).any(|(ai, a)| {
                if let Act::InnerUnsub(r, k) = a {
                  rec_id(*r) + *k == *irec && real.inner_live.get(ai).map_or(false, |l| l.iter().any(|x| x.0 == *irec))
                } else {
                  false
                }
              });
              let ended = saw_terminal || unsubscribed;
              if *live == ended {
                flagged.push(*irec);
                st.add_finding(
                  format!("{}/inner-is_subscribed-{}", locus(p), if *live { "true-after-end" } else { "false-while-live" }),
                  format!("after step {} the subscription to inner observable #{} reads is_subscribed()={} but it {}", step, irec, live, if ended { "has ended" } else { "has seen no terminal and was not unsubscribed" }),
                  shown.clone(),
                );
              }
            }
          }
        }
      }
      Oracle::Teardown => {
        if !p.ops().iter().all(|o| o.has_functional_reference()) {
          st.permissive += 1;
          continue;
        }
        if is_tainted {
          st.tainted += 1;
          continue;
        }
        let (alt, names) = as_implemented(p);
        let alt_ref;
        let mut r = refr.as_ref().unwrap();
        let mut known_names: Vec<&'static str> = vec![];
        if !names.is_empty() {
          // operators with a known functional defect: their teardown is judged
          // against what they actually compute; the deviation itself is C03's finding
          let alt_case = Case { srcs: case.srcs.clone(), pipeline: alt, acts: case.acts.clone() };
          alt_ref = run_ref(&alt_case);
          if compare_events(&real, r, case.acts.len()).is_some() && compare_events(&real, &alt_ref, case.acts.len()).is_none() {
            r = &alt_ref;
            known_names = names;
          }
        }
        let _ = &known_names;
        // probes taken while a further source was being subscribed (a retry's next attempt, concat's
        // next source, a flat_map inner, a fallback): whatever the reference has cancelled by then must
        // read is_subscribed()==false - an emission at that moment would otherwise still see `true`
        if r.sub_snaps.len() == real.sub_snaps.len() && r.sub_snaps.iter().zip(real.sub_snaps.iter()).all(|(a, b)| a.0 == b.0 && a.1 == b.1) {
          'snaps: for (k, (rs, qs)) in r.sub_snaps.iter().zip(real.sub_snaps.iter()).enumerate() {
            for (si, insts) in rs.2.iter().enumerate() {
              for (ii, alive) in insts.iter().enumerate() {
                let lazy = rs.3.get(si).and_then(|s| s.get(ii)).cloned().unwrap_or(false);
                let real_alive = qs.2.get(si).and_then(|s| s.get(ii)).cloned();
                if !alive && !lazy && real_alive == Some(true) {
                  st.add_finding(
                    format!("{}/upstream-not-torn-down-when-the-next-source-is-subscribed", locus(p)),
                    format!(
                      "while source s{} was being subscribed (its subscription #{}, the {}. source subscription of the run) source s{} (subscription #{}) still read is_subscribed()==true although nothing needs it any more | real: {} | reference: {}",
                      rs.0, rs.1, k + 1, si, ii, real.show(), r.show()
                    ),
                    shown.clone(),
                  );
                  break 'snaps;
                }
              }
            }
          }
        }
        'outer: for step in 0..case.acts.len() {
          for (si, insts) in r.src_alive[step].iter().enumerate() {
            for (ii, alive) in insts.iter().enumerate() {
              let lazy = r.src_lazy[step][si][ii];
              let real_alive = real.src_alive.get(step).and_then(|s| s.get(si)).and_then(|s| s.get(ii)).cloned();
              if !alive && !lazy && real_alive == Some(true) {
                st.add_finding(
                  format!("{}/upstream-not-torn-down", locus(p)),
                  format!("after step {} source s{} (subscription #{}) still reads is_subscribed()==true although nothing needs it any more | real: {} | reference: {}", step, si, ii, real.show(), r.show()),
                  shown.clone(),
                );
                break 'outer;
              }
            }
          }
        }
        // a library Subject used as the source must not hold more observers than are needed
        for step in 0..case.acts.len() {
          for (si, k) in case.srcs.iter().enumerate() {
            if matches!(k, SrcKind::Subject | SrcKind::BehaviorSubject | SrcKind::ReplaySubject) {
              let (have, want) = (real.held[step][si], r.held[step][si]);
              if have > want {
                st.add_finding(
                  format!("{}/subject-still-holds-observer", locus(p)),
                  format!("after step {} the Subject s{} holds {} observer(s), {} subscription(s) still need it | real: {} | reference: {}", step, si, have, want, real.show(), r.show()),
                  shown.clone(),
                );
              }
            }
          }
        }
        // polite/endless producers must have stopped where the reference stops them
        for (si, k) in case.srcs.iter().enumerate() {
          if matches!(k, SrcKind::Endless(_)) || matches!(k, SrcKind::Cold { polite: true, .. }) {
            for (ii, n) in real.emitted[si].iter().enumerate() {
              let want = r.emitted.get(si).and_then(|v| v.get(ii)).cloned().unwrap_or(0);
              if *n > want {
                st.add_finding(
                  format!("{}/producer-not-stopped", locus(p)),
                  format!("source s{} (subscription #{}) made {} emissions, the reference stops it after {}", si, ii, n, want),
                  shown.clone(),
                );
              }
            }
          }
        }
      }
      Oracle::Release => {
        // only meaningful once every root has ended
        let all_ended = real.root_live.last().map_or(false, |l| l.iter().all(|x| *x != Some(true)));
        if !all_ended {
          st.skipped += 1;
          continue;
        }
        if !real.tokens_owned.is_empty() {
          let mut kinds: Vec<String> = real.tokens_owned.iter().map(|t| t.split('(').next().unwrap_or("").to_string()).collect();
          kinds.sort();
          kinds.dedup();
          st.add_finding(
            format!("{}/still-owned:{}", locus(p), kinds.join("+")),
            format!("after the end and after dropping every handle these tokens still have owners: {}", real.tokens_owned.join(", ")),
            shown.clone(),
          );
        }
      }
    }
  }
  if st.samples.len() < 2 && !real.events.is_empty() {
    st.samples.push(format!("{} => {}", shown.clone(), real.show()));
  }
}

pub fn run_family(prop: &str, fam: &Family, depth: usize, stop: &AtomicBool) -> Stats {
  let tainted = tainted_ops(prop);
  let next = AtomicUsize::new(0);
  let total = Mutex::new(Stats::default());
  let nw = crate::tcommon::workers();
  std::thread::scope(|sc| {
    for _ in 0..nw {
      sc.spawn(|| {
        let mut st = Stats::default();
        loop {
          let i = next.fetch_add(1, Ordering::Relaxed);
          if i >= fam.pipelines.len() || stop.load(Ordering::Relaxed) {
            break;
          }
          let p = &fam.pipelines[i];
          let need = p.max_src() + 1;
          for w in fam.worlds.iter() {
            if w.srcs.len() < need {
              continue;
            }
            let case = Case { srcs: w.srcs.clone(), pipeline: p.clone(), acts: w.acts.clone() };
            eval_case(prop, &case, &fam.oracles, &mut st, depth, &tainted);
          }
        }
        total.lock().unwrap().merge(st);
      });
    }
  });
  total.into_inner().unwrap()
}

pub fn fold_stats(r: &mut Report, fam: &str, st: Stats, per_family: &mut Vec<J>) {
  r.traces += st.runs;
  r.states += st.steps + st.runs;
  r.transitions += st.steps;
  for (k, (detail, case, n)) in &st.findings {
    r.add_finding(Finding {
      key: k.clone(),
      detail: format!("[{}] {} | case: {}", fam, detail, case),
      replay: obj(vec![("engine", s("S")), ("family", s(fam)), ("case", s(case.clone())), ("detail", s(detail.clone()))]),
      count: *n,
    });
  }
  if r.samples.len() < 6 {
    for x in st.samples.iter().take(2) {
      r.samples.push(s(x.clone()));
    }
  }
  let exercised: Vec<String> = st
    .per_op_runs
    .iter()
    .filter(|(k, _)| st.per_op_nontrivial.get(*k).cloned().unwrap_or(0) == 0)
    .map(|(k, _)| k.clone())
    .collect();
  per_family.push(obj(vec![
    ("family", s(fam)),
    ("runs", J::I(st.runs as i64)),
    ("driver_steps", J::I(st.steps as i64)),
    ("nontrivial_runs", J::I(st.nontrivial as i64)),
    ("tainted_skipped", J::I(st.tainted as i64)),
    ("permissive_or_no_reference", J::I(st.permissive as i64)),
    ("not_applicable_skipped", J::I(st.skipped as i64)),
    ("self_deadlocks_seen", J::I(st.self_deadlocks as i64)),
    ("distinct_findings", J::I(st.findings.len() as i64)),
    ("operators_never_nontrivial", crate::json::arr_s(&exercised)),
  ]));
  println!(
    "  {:<40} runs={:>9} steps={:>10} nontrivial={:>9} tainted={:>8} findings={}",
    fam,
    st.runs,
    st.steps,
    st.nontrivial,
    st.tainted,
    st.findings.len()
  );
}
