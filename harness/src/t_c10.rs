//! C10 (cross-thread clause) — "an AsyncSubject hands out only the last item, on completion": with
//! `next` racing `next` or `complete` on two threads the observer still gets exactly one item - the
//! last one of *some* order of the calls - followed by complete; never none, never two.
use crate::tcommon::*;
use another_rxrust::vstd::thread;
use rxverif_rt::exec::ExecEnd;
use rxverif_rt::explore::{Body, Check, Verdict};

/// `pre`: items pushed before the race; `racers`: one call sequence per thread (thread 0 = main);
/// a `complete` follows after the join when no racer completes. (`late`, a subscriber arriving after
/// the completion, is not used: what a subject does for one is a convention of the crate, DESIGN §6)
fn async_scn(pre: Vec<i64>, racers: Vec<Vec<Emit<i64>>>, via_map: bool, late: bool, q: Option<u32>, t: Option<u32>) -> Scn {
  let name = format!("c10/AsyncSubject{} holding {:?}: {}{}", if via_map { ".map" } else { "" }, pre, racers.iter().map(|r| format!("P({})", script_label(r))).collect::<Vec<_>>().join("||"), if late { ", then a late subscriber" } else { "" });
  scn(&name, "async-subject", q, t, move || {
    let rec = Rec::new();
    let rec_late = Rec::new();
    let (rec2, rl2) = (rec.clone(), rec_late.clone());
    let (pre2, racers2) = (pre.clone(), racers.clone());
    let body: Body = Box::new(move || {
      let sbj = AnySubject::new(SubjKind::Async);
      let o = sbj.observable();
      let o = if via_map { o.map(|x| x) } else { o };
      let _sub = rec2.sub_i64(&o);
      for v in &pre2 {
        sbj.next(*v);
      }
      let mut hs = vec![];
      for sc in racers2.iter().skip(1) {
        let (s, sc) = (sbj.clone(), sc.clone());
        hs.push(thread::spawn(move || {
          for e in &sc {
            s.emit(e);
          }
        }));
      }
      for e in &racers2[0] {
        sbj.emit(e);
      }
      for h in hs {
        let _ = h.join();
      }
      if !racers2.iter().flatten().any(|e| matches!(e, Emit::C)) {
        sbj.complete();
      }
      if late {
        let _s2 = rl2.sub_i64(&o);
      }
    });
    let (pre3, racers3) = (pre.clone(), racers.clone());
    let check: Check = Box::new(move |e: &ExecEnd| {
      let mut v = base_violations(e, &[]);
      // candidates for "the last item": the last item of any thread's sequence, or - when a racer
      // completes - also what was held before (the completion may come first)
      let completes_in_race = racers3.iter().flatten().any(|e| matches!(e, Emit::C));
      let mut cands: Vec<i64> = if completes_in_race {
        // the completion may fall anywhere: any item of the race can be the last one before it
        racers3.iter().flatten().filter_map(|e| if let Emit::N(x) = e { Some(*x) } else { None }).collect()
      } else {
        racers3.iter().filter_map(|sc| sc.iter().rev().find_map(|e| if let Emit::N(x) = e { Some(*x) } else { None })).collect()
      };
      if completes_in_race || cands.is_empty() {
        if let Some(p) = pre3.last() {
          cands.push(*p);
        }
      }
      let judge = |name: &str, r: &Rec, v: &mut Vec<rxverif_rt::explore::Violation>| {
        let ev: Vec<EvK> = r.events().iter().map(|x| x.k.clone()).collect();
        let ok = ev.len() == 2 && ev[1] == EvK::Complete && matches!(&ev[0], EvK::Next(x) if cands.contains(x));
        if !ok {
          v.push(viol("async-subject-not-exactly-the-last-item", format!("{} got [{}], want one item out of {:?} and then complete", name, r.short(), cands)));
        }
      };
      judge("the observer", &rec, &mut v);
      if late {
        judge("the late subscriber", &rec_late, &mut v);
        let a = rec.items();
        let b = rec_late.items();
        if a.len() == 1 && b.len() == 1 && a != b {
          v.push(viol("async-subject-two-last-items", format!("the observer got {:?}, the late subscriber {:?}", a, b)));
        }
      }
      Verdict { outcome: format!("{} | late: {}", rec.short(), rec_late.short()), violations: v }
    });
    (body, check)
  })
}

pub fn scenarios() -> Vec<Scn> {
  use Emit::*;
  let mut v = vec![];
  for via_map in [false, true] {
    let q = if via_map { None } else { Some(2) };
    v.push(async_scn(vec![1], vec![vec![N(2)], vec![C]], via_map, false, q, Some(3)));
    v.push(async_scn(vec![1], vec![vec![N(2)], vec![N(3)]], via_map, false, q, Some(3)));
    v.push(async_scn(vec![], vec![vec![N(2)], vec![N(3)]], via_map, false, q, Some(3)));
    v.push(async_scn(vec![1], vec![vec![N(2), N(3)], vec![C]], via_map, false, q, Some(3)));
    v.push(async_scn(vec![1], vec![vec![N(2)], vec![N(3)], vec![C]], via_map, false, None, Some(2)));
  }
  v
}
