//! C06 (cross-thread clause) — a subscription that ends while an operator is
//! in the middle of subscribing a further source (flat_map's inner, concat's
//! next, retry's new attempt, on_error_resume_next's fallback, subscribe_on's
//! deferred subscription) still tears that source down.
use crate::tcommon::*;
use another_rxrust::prelude::*;
use another_rxrust::vstd::thread;
use rxverif_rt::exec::ExecEnd;
use rxverif_rt::explore::{Body, Check, Verdict};
use std::sync::{Arc, Mutex};

#[derive(Clone, Copy, Debug, PartialEq)]
enum Dyn {
  FlatMap,
  Concat,
  Retry,
  OnErrorResumeNext,
  SubscribeOn,
  SwitchOnNext,
  MergeTake,
}

fn dyn_scn(d: Dyn, q: Option<u32>, t: Option<u32>) -> Scn {
  let name = format!("c06/{:?}: the event that makes it subscribe a further source || unsubscribe", d);
  scn(&name, "teardown-vs-late-subscription", q, t, move || {
    let rec = Rec::new();
    let state: Arc<Mutex<(Vec<bool>, usize, Vec<bool>)>> = Arc::new(Mutex::new((vec![], 0, vec![])));
    let (rec2, st2) = (rec.clone(), state.clone());
    let body: Body = Box::new(move || {
      let (a, b) = (Hot::<i64>::new(), Hot::<i64>::new());
      let b2 = b.clone();
      let o: Observable<'static, i64> = match d {
        Dyn::FlatMap => a.observable().flat_map(move |_| b2.observable()),
        Dyn::Concat => a.observable().concat(&[b.observable()]),
        Dyn::Retry => a.observable().retry(3),
        Dyn::OnErrorResumeNext => a.observable().on_error_resume_next(move |_| b2.observable()),
        Dyn::SubscribeOn => a.observable().subscribe_on(schedulers::new_thread_scheduler()),
        Dyn::SwitchOnNext => a.observable().switch_on_next(b.observable()),
        Dyn::MergeTake => a.observable().merge(&[b.observable()]).take(1),
      };
      let sub = rec2.sub_i64(&o);
      let a1 = a.clone();
      let h = thread::spawn(move || match d {
        Dyn::FlatMap | Dyn::SwitchOnNext | Dyn::MergeTake => a1.next(0),
        Dyn::Concat => a1.complete(),
        Dyn::Retry | Dyn::OnErrorResumeNext => a1.error(err(7)),
        Dyn::SubscribeOn => {}
      });
      sub.unsubscribe();
      let _ = h.join();
      // let every worker run out (virtual time only advances when nothing else can run)
      thread::sleep(ms(5));
      let before = rec2.events().len();
      // what a source would read before its next emission
      st2.lock().unwrap().2 = vec![a.any_subscribed(), b.any_subscribed()];
      // every source tries once more: nothing may be delivered, and afterwards
      // nobody may still be subscribed
      a.next(8);
      b.next(9);
      thread::sleep(ms(5));
      let mut s = st2.lock().unwrap();
      s.0 = vec![a.any_subscribed(), b.any_subscribed()];
      s.1 = rec2.events().len() - before;
    });
    let check: Check = Box::new(move |e: &ExecEnd| {
      let mut v = base_violations(e, &[]);
      let s = state.lock().unwrap();
      if s.0.iter().any(|x| *x) {
        v.push(viol(
          "source-still-subscribed-after-unsubscribe",
          format!("after unsubscribe returned and every source tried to emit once more, still subscribed: source={} further-source={} ; saw {}", s.0.first().cloned().unwrap_or(false), s.0.get(1).cloned().unwrap_or(false), rec.short()),
        ));
      }
      if s.2.iter().any(|x| *x) {
        v.push(viol(
          "source-reads-subscribed-before-its-next-emission",
          format!("after unsubscribe returned and all threads came to rest: is_subscribed() of source={} further-source={} (an emission now would still be attempted) ; saw {}", s.2.first().cloned().unwrap_or(false), s.2.get(1).cloned().unwrap_or(false), rec.short()),
        ));
      }
      if s.1 > 0 {
        v.push(viol("delivered-after-unsubscribe", format!("{} event(s) delivered by emissions made after unsubscribe returned; saw {}", s.1, rec.short())));
      }
      Verdict { outcome: format!("{} | still-subscribed {:?} | {}", rec.short(), s.0, thread_summary(e)), violations: v }
    });
    (body, check)
  })
}

/// C17 (cross-thread clause): the same races, but every source stays silent afterwards and all
/// handles are dropped - the closure of the late-subscribed pipeline must have been released
fn release_scn(d: Dyn, q: Option<u32>, t: Option<u32>) -> Scn {
  let name = format!("c17/{:?}: the event that makes it subscribe a further source || unsubscribe, then silence", d);
  scn(&name, "release-vs-late-subscription", q, t, move || {
    let rec = Rec::new();
    let owners: Arc<Mutex<Vec<(String, usize)>>> = Arc::new(Mutex::new(vec![]));
    let (rec2, ow2) = (rec.clone(), owners.clone());
    let body: Body = Box::new(move || {
      let tok_first = Arc::new(());
      let tok_further = Arc::new(());
      let tok_sub = Arc::new(());
      {
        let (a, b) = (Hot::<i64>::new(), Hot::<i64>::new());
        let (t1, t2) = (tok_first.clone(), tok_further.clone());
        let first = a.observable().map(move |x| {
          let _ = &t1;
          x
        });
        let further = {
          let b = b.clone();
          move || {
            let t2 = t2.clone();
            b.observable().map(move |x| {
              let _ = &t2;
              x
            })
          }
        };
        let f2 = further.clone();
        let o: Observable<'static, i64> = match d {
          Dyn::FlatMap => first.flat_map(move |_| f2()),
          Dyn::Concat => first.concat(&[further()]),
          Dyn::Retry => first.retry(3),
          Dyn::OnErrorResumeNext => first.on_error_resume_next(move |_| f2()),
          Dyn::SubscribeOn => first.subscribe_on(schedulers::new_thread_scheduler()),
          Dyn::SwitchOnNext => first.switch_on_next(further()),
          Dyn::MergeTake => first.merge(&[further()]).take(1),
        };
        drop(further);
        let ts = tok_sub.clone();
        let r3 = rec2.clone();
        let sub = o.subscribe(
          move |x| {
            let _ = &ts;
            r3.cb(EvK::Next(x))
          },
          |_| {},
          || {},
        );
        drop(o);
        let a1 = a.clone();
        let h = thread::spawn(move || match d {
          Dyn::FlatMap | Dyn::SwitchOnNext | Dyn::MergeTake => a1.next(0),
          Dyn::Concat => a1.complete(),
          Dyn::Retry | Dyn::OnErrorResumeNext => a1.error(err(7)),
          Dyn::SubscribeOn => {}
        });
        sub.unsubscribe();
        let _ = h.join();
        thread::sleep(ms(5));
        drop(sub);
        // a, b (and the observers they were handed) go out of scope here: nobody emits any more
      }
      thread::sleep(ms(5));
      let mut o = ow2.lock().unwrap();
      for (n, t) in [("closure of the first pipeline", &tok_first), ("closure of the further pipeline", &tok_further), ("subscriber callback", &tok_sub)] {
        if Arc::strong_count(t) > 1 {
          o.push((n.to_string(), Arc::strong_count(t) - 1));
        }
      }
    });
    let check: Check = Box::new(move |e: &ExecEnd| {
      let mut v = base_violations(e, &[]);
      let o = owners.lock().unwrap();
      if !o.is_empty() {
        v.push(viol("still-owned-after-the-end", format!("after unsubscribe returned, all threads came to rest and every handle was dropped these still have owners: {:?}", *o)));
      }
      Verdict { outcome: format!("{} | owners {:?} | {}", rec.short(), *o, thread_summary(e)), violations: v }
    });
    (body, check)
  })
}

#[derive(Clone, Copy, Debug, PartialEq)]
enum Sched {
  SubscribeOn,
  ObserveOn,
  Debounce,
  Delay,
  Timeout,
}
#[derive(Clone, Copy, Debug, PartialEq)]
enum Dead {
  /// `error(7).merge(&[x])`: x is subscribed with an observer that has already ended
  MergeAfterError,
  /// `x.take_until(just(0))`: the trigger fires during the subscription, before x is subscribed
  TakeUntilJust,
  /// `just(0).amb(&[x])`: the race is over before x is subscribed
  AmbAfterJust,
}

/// C17: a scheduler-based operator that is subscribed with a subscriber that has already ended
/// (the other input of a combining operator ended the stream synchronously) - everything it owns
/// is released all the same once the handles are gone
fn dead_release_scn(prefix: &str, k: Sched, how: Dead, q: Option<u32>, t: Option<u32>) -> Scn {
  let name = format!("{}/{:?} subscribed with a subscriber that has already ended ({:?}), then silence", prefix, k, how);
  scn(&name, "release-of-a-dead-subscription", q, t, move || {
    let rec = Rec::new();
    let owners: Arc<Mutex<Vec<(String, usize)>>> = Arc::new(Mutex::new(vec![]));
    let (rec2, ow2) = (rec.clone(), owners.clone());
    let body: Body = Box::new(move || {
      let tok_op = Arc::new(());
      let tok_item = Arc::new(());
      let tok_sub = Arc::new(());
      {
        let a = Hot::<i64>::new();
        let t1 = tok_op.clone();
        let ti = tok_item.clone();
        // a stored item (start_with) and an operator closure above the source
        let first = a.observable().start_with([1i64].into_iter()).map(move |x| {
          let _ = (&t1, &ti);
          x
        });
        let nt = || schedulers::new_thread_scheduler();
        let x: Observable<'static, i64> = match k {
          Sched::SubscribeOn => first.subscribe_on(nt()),
          Sched::ObserveOn => first.observe_on(nt()),
          Sched::Debounce => first.debounce(ms(3), nt()),
          Sched::Delay => first.delay(ms(3)),
          Sched::Timeout => first.timeout(ms(3), nt()),
        };
        let o: Observable<'static, i64> = match how {
          Dead::MergeAfterError => observables::error(err(7)).merge(&[x]),
          Dead::TakeUntilJust => x.take_until(observables::just(0i64)),
          Dead::AmbAfterJust => observables::just(0i64).amb(&[x]),
        };
        let ts = tok_sub.clone();
        let r3 = rec2.clone();
        let r4 = rec2.clone();
        let r5 = rec2.clone();
        let sub = o.subscribe(
          move |x| {
            let _ = &ts;
            r3.cb(EvK::Next(x))
          },
          move |_| r4.cb(EvK::Error(7)),
          move || r5.cb(EvK::Complete),
        );
        drop(o);
        thread::sleep(ms(10));
        drop(sub);
      }
      thread::sleep(ms(10));
      let mut o = ow2.lock().unwrap();
      for (n, t) in [("closure of the pipeline above the scheduler-based operator", &tok_op), ("subscriber callback", &tok_sub)] {
        if Arc::strong_count(t) > 1 {
          o.push((n.to_string(), Arc::strong_count(t) - 1));
        }
      }
      let _ = &tok_item;
    });
    let check: Check = Box::new(move |e: &ExecEnd| {
      let mut v = base_violations(e, &[]);
      let o = owners.lock().unwrap();
      if !o.is_empty() {
        v.push(viol("still-owned-after-the-end", format!("after the stream had ended, all threads came to rest and every handle was dropped these still have owners: {:?}", *o)));
      }
      Verdict { outcome: format!("{} | owners {:?} | {}", rec.short(), *o, thread_summary(e)), violations: v }
    });
    (body, check)
  })
}

pub fn release_scenarios() -> Vec<Scn> {
  let mut v = release_scenarios_late();
  // (delay and timeout start no thread for a subscriber that has already ended: nothing to explore)
  for k in [Sched::SubscribeOn, Sched::ObserveOn, Sched::Debounce] {
    for how in [Dead::MergeAfterError, Dead::TakeUntilJust, Dead::AmbAfterJust] {
      let quick = how == Dead::MergeAfterError || k == Sched::SubscribeOn;
      v.push(dead_release_scn("c17", k, how, if quick { Some(1) } else { None }, Some(2)));
    }
  }
  v
}

/// C15's reading of the same situations (seed C15-l: `subscribe_on` returned early for a subscriber that
/// had already ended - after its scheduler, and with it the worker thread, had been made): whatever
/// thread a scheduler-based operator started for a subscriber that was dead on arrival comes to rest
pub fn dead_worker_scenarios() -> Vec<Scn> {
  let mut v = vec![];
  for k in [Sched::SubscribeOn, Sched::ObserveOn, Sched::Debounce] {
    for how in [Dead::MergeAfterError, Dead::TakeUntilJust, Dead::AmbAfterJust] {
      let quick = how == Dead::MergeAfterError || k == Sched::SubscribeOn;
      v.push(dead_release_scn("c15", k, how, if quick { Some(1) } else { None }, Some(2)));
    }
  }
  v
}

fn release_scenarios_late() -> Vec<Scn> {
  vec![
    release_scn(Dyn::FlatMap, Some(2), Some(4)),
    release_scn(Dyn::Concat, Some(2), Some(4)),
    release_scn(Dyn::Retry, Some(2), Some(4)),
    release_scn(Dyn::OnErrorResumeNext, Some(2), Some(4)),
    release_scn(Dyn::SubscribeOn, Some(2), Some(3)),
    release_scn(Dyn::SwitchOnNext, Some(2), Some(3)),
    release_scn(Dyn::MergeTake, Some(2), Some(3)),
  ]
}

pub fn scenarios() -> Vec<Scn> {
  vec![
    dyn_scn(Dyn::FlatMap, Some(2), Some(4)),
    dyn_scn(Dyn::Concat, Some(2), Some(4)),
    dyn_scn(Dyn::Retry, Some(2), Some(4)),
    dyn_scn(Dyn::OnErrorResumeNext, Some(2), Some(4)),
    dyn_scn(Dyn::SubscribeOn, Some(2), Some(3)),
    dyn_scn(Dyn::SwitchOnNext, Some(2), Some(3)),
    dyn_scn(Dyn::MergeTake, Some(2), Some(3)),
  ]
}
