//! Engine S: operator catalogue, pipeline trees, and the builder that turns a
//! pipeline tree into a real `Observable` of the crate under test.
use crate::s_val::*;
use crate::tcommon::{err, err_code};
use another_rxrust::prelude::*;
use std::sync::{Arc, Mutex};

#[derive(Clone, Debug, PartialEq)]
pub enum Op {
  // ---- single source, item-wise
  Map(MapF),
  Filter(Pred),
  Tap,
  MapToAny,
  IgnoreElements,
  DistinctUntilChanged,
  Scan,
  Skip(usize),
  SkipLast(usize),
  SkipWhile(Pred),
  StartWith(Vec<i64>),
  // ---- early termination
  Take(usize),
  First,
  TakeWhile(Pred),
  ElementAt(usize),
  Contains(i64),
  All(Pred),
  // ---- on completion
  TakeLast(usize),
  Last,
  Reduce,
  Sum,
  Min,
  Max,
  Count,
  SumAndCount,
  DefaultIfEmpty(i64),
  Buffer(usize),
  Materialize,
  /// materialize().dematerialize()
  MatDemat,
  /// `.map(to Material).dematerialize()`: an item equal to `.0` becomes an in-band Complete, an item
  /// equal to `.1` an in-band Error(40+item); every other item Next(item) - the notification stream goes on afterwards
  DematInBand(i64, i64),
  // ---- higher order (direct form only in last position; Flat = .flat_map(|w| w))
  Window(usize),
  GroupByParity,
  /// `defer(|| src.window_with_count(k))` / `defer(|| src.group_by(..))`: same reference as the plain operator
  WindowDeferred(usize),
  GroupByParityDeferred,
  WindowFlat(usize),
  GroupByParityFlat,
  /// `group_by(parity).flat_map(|g| g.on_error_resume_next(|_| just(9)))`: a recovery operator inside the
  /// per-group pipeline - every group open when the source fails contributes its fallback before the error
  GroupByParityFlatResume,
  // ---- recovery
  Retry(usize),
  RetryWhen(EPred),
  OnErrorResumeNext(Resume),
  // ---- schedulers (synchronous default scheduler)
  ObserveOnDefault,
  /// `observables::defer(|| input)`: the input pipeline handed out by a factory, per subscription
  Defer,
  /// `.ref_count().observable()` / `.replay().observable()`: for a single subscriber the identity,
  /// connected at its arrival and disconnected when it leaves (replay: over hot sources only, C13's known finding)
  RefCount,
  ReplayConn,
  SubscribeOnDefault,
  // ---- no functional reference (contract / teardown / release only)
  Timestamp,
  TimeInterval,
  // ---- several sources (extra inputs in OpNode::extra)
  Merge,
  Concat,
  Zip,
  CombineLatest,
  Amb,
  TakeUntil,
  SkipUntil,
  Sample,
  SequenceEqual,
  /// reference-only: sequence_equal as the crate implements it (zip, then compare
  /// tuples; items beyond the shortest input are ignored) - known finding F07
  SequenceEqualPrefix,
  SwitchOnNext,
  FlatMap(Inner),
  /// utils::ready_set_go(action, source): the action pushes this script into the (hot) source
  ReadySetGo(Vec<Ev>),
}

impl Op {
  pub fn name(&self) -> &'static str {
    match self {
      Op::Map(_) => "map",
      Op::Filter(_) => "filter",
      Op::Tap => "tap",
      Op::MapToAny => "map_to_any",
      Op::IgnoreElements => "ignore_elements",
      Op::DistinctUntilChanged => "distinct_until_changed",
      Op::Scan => "scan",
      Op::Skip(_) => "skip",
      Op::SkipLast(_) => "skip_last",
      Op::SkipWhile(_) => "skip_while",
      Op::StartWith(_) => "start_with",
      Op::Take(_) => "take",
      Op::First => "first",
      Op::TakeWhile(_) => "take_while",
      Op::ElementAt(_) => "element_at",
      Op::Contains(_) => "contains",
      Op::All(_) => "all",
      Op::TakeLast(_) => "take_last",
      Op::Last => "last",
      Op::Reduce => "reduce",
      Op::Sum => "sum",
      Op::Min => "min",
      Op::Max => "max",
      Op::Count => "count",
      Op::SumAndCount => "sum_and_count",
      Op::DefaultIfEmpty(_) => "default_if_empty",
      Op::Buffer(_) => "buffer_with_count",
      Op::Materialize => "materialize",
      Op::MatDemat | Op::DematInBand(..) => "dematerialize",
      Op::Window(_) | Op::WindowFlat(_) | Op::WindowDeferred(_) => "window_with_count",
      Op::GroupByParity | Op::GroupByParityFlat | Op::GroupByParityFlatResume | Op::GroupByParityDeferred => "group_by",
      Op::Retry(_) => "retry",
      Op::RetryWhen(_) => "retry_when",
      Op::OnErrorResumeNext(_) => "on_error_resume_next",
      Op::ObserveOnDefault => "observe_on",
      Op::Defer => "defer",
      Op::RefCount => "ref_count",
      Op::ReplayConn => "replay",
      Op::SubscribeOnDefault => "subscribe_on",
      Op::Timestamp => "timestamp",
      Op::TimeInterval => "time_interval",
      Op::Merge => "merge",
      Op::Concat => "concat",
      Op::Zip => "zip",
      Op::CombineLatest => "combine_latest",
      Op::Amb => "amb",
      Op::TakeUntil => "take_until",
      Op::SkipUntil => "skip_until",
      Op::Sample => "sample",
      Op::SequenceEqual | Op::SequenceEqualPrefix => "sequence_equal",
      Op::SwitchOnNext => "switch_on_next",
      Op::FlatMap(_) => "flat_map",
      Op::ReadySetGo(_) => "ready_set_go",
    }
  }
  pub fn show(&self) -> String {
    match self {
      Op::Window(_) | Op::GroupByParity | Op::WindowDeferred(_) | Op::GroupByParityDeferred => format!("{:?}", self).to_lowercase(),
      _ => format!("{:?}", self),
    }
  }
  /// delivers inner observables: usable in last position only
  pub fn higher_order(&self) -> bool {
    matches!(self, Op::Window(_) | Op::GroupByParity | Op::WindowDeferred(_) | Op::GroupByParityDeferred)
  }
  pub fn has_functional_reference(&self) -> bool {
    !matches!(self, Op::TimeInterval | Op::SwitchOnNext)
  }
  pub fn n_extra(&self) -> std::ops::RangeInclusive<usize> {
    match self {
      Op::Merge | Op::Concat | Op::Zip | Op::CombineLatest | Op::Amb | Op::SequenceEqual | Op::SequenceEqualPrefix => 1..=3,
      Op::TakeUntil | Op::SkipUntil | Op::Sample | Op::SwitchOnNext => 1..=1,
      _ => 0..=0,
    }
  }
}

#[derive(Clone, Debug, PartialEq)]
pub enum Node {
  Src(usize),
  Op(Box<OpNode>),
}
#[derive(Clone, Debug, PartialEq)]
pub struct OpNode {
  pub op: Op,
  pub input: Node,
  pub extra: Vec<Node>,
}
impl Node {
  pub fn op(op: Op, input: Node) -> Node {
    Node::Op(Box::new(OpNode { op, input, extra: vec![] }))
  }
  pub fn opx(op: Op, input: Node, extra: Vec<Node>) -> Node {
    Node::Op(Box::new(OpNode { op, input, extra }))
  }
  pub fn show(&self) -> String {
    match self {
      Node::Src(i) => format!("s{}", i),
      Node::Op(o) => {
        if o.extra.is_empty() {
          format!("{}.{}", o.input.show(), o.op.show())
        } else {
          format!(
            "{}.{}[{}]",
            o.input.show(),
            o.op.show(),
            o.extra.iter().map(|e| e.show()).collect::<Vec<_>>().join(",")
          )
        }
      }
    }
  }
  pub fn ops(&self) -> Vec<Op> {
    match self {
      Node::Src(_) => vec![],
      Node::Op(o) => {
        let mut v = o.input.ops();
        for e in &o.extra {
          v.extend(e.ops());
        }
        v.push(o.op.clone());
        v
      }
    }
  }
  pub fn top_op(&self) -> Option<&Op> {
    match self {
      Node::Src(_) => None,
      Node::Op(o) => Some(&o.op),
    }
  }
  pub fn max_src(&self) -> usize {
    match self {
      Node::Src(i) => *i,
      Node::Op(o) => {
        let mut m = o.input.max_src();
        for e in &o.extra {
          m = m.max(e.max_src());
        }
        if let Op::FlatMap(Inner::Hot { base, n }) = o.op {
          m = m.max(base + n - 1);
        }
        m
      }
    }
  }
}

// ------------------------------------------------------------- environment

/// Tokens captured by every closure handed to the library and carried by
/// every item (C17).
#[derive(Clone, Default)]
pub struct Tokens {
  pub v: Arc<Mutex<Vec<(String, Arc<()>)>>>,
}
impl Tokens {
  pub fn take(&self, what: &str) -> Arc<()> {
    let t = Arc::new(());
    self.v.lock().unwrap().push((what.to_string(), t.clone()));
    t
  }
  /// names of tokens that still have an owner besides the registry
  pub fn still_owned(&self) -> Vec<String> {
    self
      .v
      .lock()
      .unwrap()
      .iter()
      .filter(|(_, t)| Arc::strong_count(t) > 1)
      .map(|(n, t)| format!("{}(+{})", n, Arc::strong_count(t) - 1))
      .collect()
  }
}

pub struct Env {
  pub srcs: Vec<Observable<'static, V>>,
  /// pushes an event into hot source i (used by ready_set_go's action)
  pub push: Vec<Arc<dyn Fn(&Ev) + Send + Sync>>,
  pub toks: Tokens,
  /// side-effect log of `tap` (subscription-independent, C14)
  pub tap_log: Arc<Mutex<Vec<Ev>>>,
  /// one-shot action run from inside tap's next side effect (user code of an operator re-entering the library)
  pub tap_hook: Arc<Mutex<Option<Box<dyn FnOnce() + Send>>>>,
}

fn resume_obs(r: Resume, e: &RxError) -> Observable<'static, V> {
  match r {
    Resume::Just9 => observables::just(V::int(9)),
    Resume::Empty => observables::empty(),
    Resume::OtherErr => observables::error(err(err_code(e) + 100)),
    Resume::SameErr => observables::error(e.clone()),
    Resume::Cold89 => observables::from_iter(vec![V::int(8), V::int(9)].into_iter()),
  }
}

fn mat_to_v(m: Material<V>) -> V {
  match m {
    Material::Next(x) => x.with(D::MNext(Box::new(x.d.clone()))),
    Material::Error(e) => V::new(D::MErr(err_code(&e))),
    Material::Complete => V::new(D::MComplete),
  }
}

/// a typed stage: either V-valued, or one of the type-changing results that
/// a recorder can observe directly
pub enum Built {
  V(Observable<'static, V>),
  Bool(Observable<'static, bool>),
  Usize(Observable<'static, usize>),
  VecV(Observable<'static, Vec<V>>),
  SumCount(Observable<'static, (V, usize)>),
  Mat(Observable<'static, Material<V>>),
  Any(Observable<'static, Arc<Box<dyn std::any::Any + Send + Sync + 'static>>>),
  Ts(Observable<'static, (another_rxrust::vstd::time::SystemTime, V)>),
  Dur(Observable<'static, std::time::Duration>),
  Nested(Observable<'static, Observable<'static, V>>),
}

impl Built {
  /// V-valued view (inserting the adapter `map` for type-changing stages)
  pub fn into_v(self) -> Observable<'static, V> {
    match self {
      Built::V(o) => o,
      Built::Bool(o) => o.map(|b| V::new(D::B(b))),
      Built::Usize(o) => o.map(|n| V::new(D::I(n as i64))),
      Built::VecV(o) => o.map(|v: Vec<V>| V {
        d: D::L(v.iter().map(|x| x.d.clone()).collect()),
        tok: v.first().and_then(|x| x.tok.clone()),
      }),
      Built::SumCount(o) => o.map(|(s, c): (V, usize)| s.with(D::SC(Box::new(s.d.clone()), c))),
      Built::Mat(o) => o.map(mat_to_v),
      Built::Any(o) => o.map(|a| match a.downcast_ref::<V>() {
        Some(v) => v.clone(),
        None => V::new(D::U),
      }),
      Built::Ts(o) => o.map(|(_, v)| v),
      Built::Dur(o) => o.map(|_| V::new(D::U)),
      Built::Nested(o) => o.flat_map(|w| w),
    }
  }
}

pub fn build(n: &Node, env: &Env) -> Observable<'static, V> {
  build_typed(n, env).into_v()
}

pub fn build_typed(n: &Node, env: &Env) -> Built {
  let on = match n {
    Node::Src(i) => return Built::V(env.srcs[*i].clone()),
    Node::Op(o) => o,
  };
  let src = build(&on.input, env);
  let extra: Vec<Observable<'static, V>> = on.extra.iter().map(|e| build(e, env)).collect();
  let t = env.toks.take(on.op.name());
  match &on.op {
    Op::Map(f) => {
      let f = *f;
      Built::V(src.map(move |x: V| {
        let _ = &t;
        crate::s_val::user_fn_point();
        x.with(f.apply(&x.d))
      }))
    }
    Op::Filter(p) => {
      let p = *p;
      Built::V(src.filter(move |x: V| {
        let _ = &t;
        crate::s_val::user_fn_point();
        p.test(&x.d)
      }))
    }
    Op::Tap => {
      let (l1, l2, l3) = (env.tap_log.clone(), env.tap_log.clone(), env.tap_log.clone());
      let (t1, t2, t3) = (t.clone(), t.clone(), t);
      let hook = env.tap_hook.clone();
      Built::V(src.tap(
        move |x: V| {
          let _ = &t1;
          l1.lock().unwrap().push(Ev::N(x.d.clone()));
          crate::s_val::user_fn_point();
          let f = hook.lock().unwrap().take();
          if let Some(f) = f {
            f();
          }
        },
        move |e| {
          let _ = &t2;
          l2.lock().unwrap().push(Ev::E(err_code(&e)))
        },
        move || {
          let _ = &t3;
          l3.lock().unwrap().push(Ev::C)
        },
      ))
    }
    Op::MapToAny => Built::Any(src.map_to_any()),
    Op::IgnoreElements => Built::V(src.ignore_elements()),
    Op::DistinctUntilChanged => Built::V(src.distinct_until_changed()),
    Op::Scan => Built::V(src.scan(move |(a, b): (V, V)| {
      let _ = &t;
      crate::s_val::user_fn_point();
      a + b
    })),
    Op::Skip(k) => Built::V(src.skip(*k)),
    Op::SkipLast(k) => Built::V(src.skip_last(*k)),
    Op::SkipWhile(p) => {
      let p = *p;
      Built::V(src.skip_while(move |x: V| {
        let _ = &t;
        crate::s_val::user_fn_point();
        p.test(&x.d)
      }))
    }
    Op::StartWith(v) => {
      let items: Vec<V> = v.iter().map(|x| V::int(*x)).collect();
      Built::V(src.start_with(items.into_iter()))
    }
    Op::Take(k) => Built::V(src.take(*k)),
    Op::First => Built::V(src.first()),
    Op::TakeWhile(p) => {
      let p = *p;
      Built::V(src.take_while(move |x: V| {
        let _ = &t;
        crate::s_val::user_fn_point();
        p.test(&x.d)
      }))
    }
    Op::ElementAt(k) => Built::V(src.element_at(*k)),
    Op::Contains(k) => Built::Bool(src.contains(V::int(*k))),
    Op::All(p) => {
      let p = *p;
      Built::Bool(src.all(move |x: V| {
        let _ = &t;
        crate::s_val::user_fn_point();
        p.test(&x.d)
      }))
    }
    Op::TakeLast(k) => Built::V(src.take_last(*k)),
    Op::Last => Built::V(src.last()),
    Op::Reduce => Built::V(src.reduce(move |(a, b): (V, V)| {
      let _ = &t;
      crate::s_val::user_fn_point();
      a + b
    })),
    Op::Sum => Built::V(src.sum()),
    Op::Min => Built::V(src.min()),
    Op::Max => Built::V(src.max()),
    Op::Count => Built::Usize(src.count()),
    Op::SumAndCount => Built::SumCount(src.sum_and_count()),
    Op::DefaultIfEmpty(k) => Built::V(src.default_if_empty(V::int(*k))),
    Op::Buffer(k) => Built::VecV(src.buffer_with_count(*k)),
    Op::Materialize => Built::Mat(src.materialize()),
    Op::MatDemat => Built::V(src.materialize().dematerialize()),
    Op::DematInBand(c, e) => {
      let (c, e) = (*c, *e);
      Built::V(
        src
          .map(move |x: V| {
            let _ = &t;
            crate::s_val::user_fn_point();
            match x.d {
              D::I(k) if k == c => Material::Complete,
              D::I(k) if k == e => Material::Error(err(40 + k)),
              _ => Material::Next(x),
            }
          })
          .dematerialize(),
      )
    }
    Op::Window(k) => Built::Nested(src.window_with_count(*k)),
    Op::WindowDeferred(k) => {
      let k = *k;
      Built::Nested(observables::defer(move || {
        let _ = &t;
        crate::s_val::user_fn_point();
        src.window_with_count(k)
      }))
    }
    Op::GroupByParityDeferred => Built::Nested(observables::defer(move || {
      let t = t.clone();
      src.group_by(move |x: V| {
        let _ = &t;
        crate::s_val::user_fn_point();
        x.d.i().rem_euclid(2)
      })
    })),
    Op::WindowFlat(k) => Built::V(src.window_with_count(*k).flat_map(|w| w)),
    Op::GroupByParity => Built::Nested(src.group_by(move |x: V| {
      let _ = &t;
      crate::s_val::user_fn_point();
      x.d.i().rem_euclid(2)
    })),
    Op::GroupByParityFlat => Built::V(
      src
        .group_by(move |x: V| {
          let _ = &t;
          crate::s_val::user_fn_point();
          x.d.i().rem_euclid(2)
        })
        .flat_map(|w| w),
    ),
    Op::GroupByParityFlatResume => {
      let t2 = t.clone();
      Built::V(
        src
          .group_by(move |x: V| {
            let _ = &t;
            crate::s_val::user_fn_point();
            x.d.i().rem_euclid(2)
          })
          .flat_map(move |g| {
            let t3 = t2.clone();
            g.on_error_resume_next(move |_e| {
              let _ = &t3;
              observables::just(V::int(9))
            })
          }),
      )
    }
    Op::Retry(k) => Built::V(src.retry(*k)),
    Op::RetryWhen(p) => {
      let p = *p;
      Built::V(src.retry_when(move |e| {
        let _ = &t;
        crate::s_val::user_fn_point();
        p.test(err_code(&e))
      }))
    }
    Op::OnErrorResumeNext(r) => {
      let r = *r;
      Built::V(src.on_error_resume_next(move |e| {
        let _ = &t;
        crate::s_val::user_fn_point();
        resume_obs(r, &e)
      }))
    }
    Op::ObserveOnDefault => Built::V(src.observe_on(schedulers::default_scheduler())),
    Op::Defer => Built::V(observables::defer(move || {
      let _ = &t;
      crate::s_val::user_fn_point();
      src.clone()
    })),
    Op::RefCount => Built::V(src.ref_count().observable()),
    Op::ReplayConn => Built::V(src.replay().observable()),
    Op::SubscribeOnDefault => Built::V(src.subscribe_on(schedulers::default_scheduler())),
    Op::Timestamp => Built::Ts(src.timestamp()),
    Op::TimeInterval => Built::Dur(src.time_interval()),
    Op::Merge => Built::V(src.merge(&extra)),
    Op::Concat => Built::V(src.concat(&extra)),
    Op::Zip => Built::VecV(src.zip(&extra)),
    Op::CombineLatest => Built::V(src.combine_latest(&extra, move |v: Vec<V>| {
      let _ = &t;
      crate::s_val::user_fn_point();
      V { d: D::L(v.iter().map(|x| x.d.clone()).collect()), tok: v.first().and_then(|x| x.tok.clone()) }
    })),
    Op::Amb => Built::V(src.amb(&extra)),
    Op::TakeUntil => Built::V(src.take_until(extra[0].clone())),
    Op::SkipUntil => Built::V(src.skip_until(extra[0].clone())),
    Op::Sample => Built::V(src.sample(extra[0].clone())),
    Op::SequenceEqual | Op::SequenceEqualPrefix => Built::Bool(src.sequence_equal(&extra)),
    Op::SwitchOnNext => Built::V(src.switch_on_next(extra[0].clone())),
    Op::ReadySetGo(script) => {
      let script = script.clone();
      let push = match &on.input {
        Node::Src(i) => env.push[*i].clone(),
        _ => Arc::new(|_: &Ev| {}),
      };
      Built::V(utils::ready_set_go(
        move || {
          let _ = &t;
          crate::s_val::user_fn_point();
          for ev in &script {
            push(ev);
          }
        },
        src,
      ))
    }
    Op::FlatMap(k) => {
      let k = *k;
      let hots = env.srcs.clone();
      let toks = env.toks.clone();
      Built::V(src.flat_map(move |x: V| {
        let _ = &t;
        crate::s_val::user_fn_point();
        match k {
          Inner::Just10 => observables::just(x.with(D::I(x.d.i() * 10))),
          Inner::Empty => observables::empty(),
          Inner::Cold2 => {
            observables::from_iter(vec![x.clone(), x.with(D::I(x.d.i() + 100))].into_iter())
          }
          Inner::Err => observables::error(err(40 + x.d.i())),
          Inner::Hot { base, n } => {
            // an operator closure of its own on every inner pipeline (C17: released with the subscription)
            let ti = toks.take("closure of a flat_map inner pipeline");
            hots[base + (x.d.i().rem_euclid(n as i64) as usize)].map(move |v| {
              let _ = &ti;
              v
            })
          }
        }
      }))
    }
  }
}


/// The pipeline with every operator that has a *known, unrepaired* defect
/// replaced by a reference-only operator describing what the crate actually
/// does (DESIGN.md §8: F07 sequence_equal ignores a length mismatch, F08
/// combine_latest is zip + map). A run that disagrees with the reference but
/// agrees with this "as implemented" reference is that known finding and
/// nothing else; any other deviation of the same operators is still reported.
pub fn as_implemented(n: &Node) -> (Node, Vec<&'static str>) {
  match n {
    Node::Src(i) => (Node::Src(*i), vec![]),
    Node::Op(on) => {
      let (inp, mut names) = as_implemented(&on.input);
      let mut extra = vec![];
      for e in &on.extra {
        let (x, nn) = as_implemented(e);
        extra.push(x);
        names.extend(nn);
      }
      let op = match &on.op {
        Op::CombineLatest => {
          names.push("combine_latest/behaves-like-zip");
          Op::Zip
        }
        Op::SequenceEqual => {
          names.push("sequence_equal/ignores-length-mismatch");
          Op::SequenceEqualPrefix
        }
        o => o.clone(),
      };
      (Node::opx(op, inp, extra), names)
    }
  }
}
